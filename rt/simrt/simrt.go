// Package simrt is the deterministic scheduler under which generated injectors run.
//
// Threads are real goroutines, but exactly one of them is runnable at any instant:
// every hook the instrumenter inserted (channel receive, select, close, provider
// entry, errgroup Wait) publishes the pending operation and parks; the scheduler
// computes the enabled set from its shadow state, lets the run's PRNG (or a recorded
// decision list) pick one thread, releases it and waits until it parks again or exits.
// Time is a discrete-event clock that only moves when nothing is runnable.
package simrt

import (
	"context"
	"errors"
	"fmt"
	"reflect"
	"sort"
	"strings"
	"time"
)

// ---------------------------------------------------------------- plan / decisions

// Plan is everything that is decided before a run starts. Together with the decision
// list it makes a run a pure function of the compiled program.
type Plan struct {
	Seed        uint64          `json:"seed"`
	Strategy    string          `json:"strategy"` // random | pct | mainfirst | mainlast | newest | latency
	PCTDepth    int             `json:"pct_depth"`
	Latency     bool            `json:"latency"`      // draw provider latencies
	Fail        map[string]bool `json:"fail"`         // provider name -> fails when invoked
	Stall       bool            `json:"stall"`        // C05 adversary: Async-marked providers park inside until released
	StallSet    []string        `json:"stall_set"`    // providers that must all be inside before release
	StallAll    map[string]bool `json:"stall_all"`    // every provider that parks (all Async ones)
	CancelStep  int             `json:"cancel_step"`  // -1 never; 0 = cancelled before the call; k = at scheduler step k
	CancelTime  int64           `json:"cancel_time"`  // >0: caller cancels at this simulated time (ns)
	Deadline    int64           `json:"deadline"`     // >0: caller context deadline (ns)
	ForceSelect string          `json:"force_select"` // "", "ctx", "chan": forced branch when both kinds are ready
	Decisions   []int           `json:"decisions"`    // replayed first; afterwards the PRNG decides
	StepCap     int             `json:"step_cap"`
}

type rng struct{ s uint64 }

func (r *rng) next() uint64 {
	r.s += 0x9e3779b97f4a7c15
	z := r.s
	z = (z ^ (z >> 30)) * 0xbf58476d1ce4e5b9
	z = (z ^ (z >> 27)) * 0x94d049bb133111eb
	return z ^ (z >> 31)
}

// ---------------------------------------------------------------- records

type Event struct {
	Seq    int    `json:"seq"`
	Time   int64  `json:"t"`
	Thread int    `json:"th"`
	Kind   string `json:"kind"`
	Detail string `json:"detail"`
}

// CallRec is one provider invocation.
type CallRec struct {
	Name     string
	Thread   int
	EnterSeq int
	ExitSeq  int // 0 while inside
	In       []string
	Out      []string
	Err      error
}

type RaceRec struct {
	Var          string
	Kind         string // write-read | read-write | write-write
	FirstThread  int
	SecondThread int
	FirstSite    string
	SecondSite   string
}

type BlockedRec struct {
	Thread int
	Name   string
	Op     string // plain-recv | ctx-select | chan-select | wait | stall | sleep | start | other
	Detail string
	Chans  []string // names of the injector's own channels the thread is parked on
}

// Result is everything the oracles look at after a run.
type Result struct {
	Events    []Event
	Calls     []CallRec
	Races     []RaceRec
	Panics    []string
	Returned  bool
	ReturnSeq int
	RetVals   []reflect.Value
	// state at the instant the injector returned
	LiveAtReturn []BlockedRec
	// state at quiescence
	Blocked          []BlockedRec
	DoubleClose      []string
	Decisions        []int
	DecAtStep        []int // number of decisions consumed when scheduler step k began
	Steps            int
	SimTime          int64
	StepCapHit       bool
	Threads          int
	CallerCancelled  bool
	CallerCancelSeq  int    // event seq of the caller's cancellation (0 = never)
	DerivedCancelled bool   // a context derived by errgroup.WithContext was cancelled
	MainLastSync     string // last synchronisation of the injector's own thread before it returned or parked
	MainExit         string // final-return | provider-error-return | ctx-branch-return | wait-error-return | other
	GoroutineCtxExit bool   // some goroutine left through a ctx.Done() branch
	Probes           map[string]int
	Harness          string   // non-empty: the simulator itself is inconsistent (exit 2)
	StallReached     []string // providers inside when the stall adversary could not make progress any more
	StallReleased    bool
}

// ---------------------------------------------------------------- simulator state

type opKind int

const (
	opStart opKind = iota
	opRecv
	opSelect
	opClose
	opEnter
	opSleep
	opStall
	opWait
	opExitThread
	opGoSlot
	opSend
)

type pendingOp struct {
	kind   opKind
	chans  []uintptr
	names  []string
	hasDef bool
	until  int64
	ctx    *Ctx // sleep that a cancellation interrupts
	group  *Group
	prov   string
}

type wakeMsg struct {
	kill   bool
	branch int
}

type thread struct {
	id       int
	name     string
	wake     chan wakeMsg
	op       pendingOp
	exited   bool
	parked   bool
	vc       []uint32
	group    *Group
	prio     int
	lastSync string
	lastEvt  string
	killed   bool
	// an unbuffered send parked in Send: matched by a receiver (or hit by a close)
	sendMatched bool
	sendClosed  bool
	sendDo      func()   // performs the real send; run on a helper goroutine when a receiver takes it
	sendVC      []uint32 // the sender's clock at the send
	recvVC      []uint32 // the receiver's clock at the rendezvous
}

type chanState struct {
	closed  bool
	vc      []uint32
	name    string
	ctx     *Ctx
	senders []*thread // parked, unmatched senders (generated code never sends; changed generators may)
}

func (cs *chanState) ready() bool { return cs != nil && (cs.closed || len(cs.senders) > 0) }

type varState struct {
	keep  any
	name  string
	wTid  int
	wClk  uint32
	wSite string
	hasW  bool
	rClk  []uint32 // per thread: clock of the last read
	rSite []string
}

type timer struct {
	at   int64
	kind string // cancel | deadline
}

type Sim struct {
	plan       Plan
	r          rng
	threads    []*thread
	cur        *thread
	yielded    chan struct{}
	clock      int64
	steps      int
	seq        int
	chans      map[uintptr]*chanState
	vars       map[uintptr]*varState
	timers     []timer
	root       *Ctx
	res        *Result
	decIdx     int
	inside     map[string]bool // providers currently parked by the stall adversary
	released   bool
	pctChange  map[int]bool
	callerDone bool
	keepAlive  []any
}

// S is the simulator of the current run (one run at a time per process).
var S *Sim

type killSentinel struct{}

// Watchdog is the real-time limit for one scheduling step (a hang in real code is a harness error).
var Watchdog = 180 * time.Second

// ---------------------------------------------------------------- running

// Run executes body (which calls the injector) on a fresh simulator under plan.
func Run(plan Plan, body func(ctx context.Context) []reflect.Value) *Result {
	s := &Sim{plan: plan, r: rng{s: plan.Seed}, yielded: make(chan struct{}), chans: map[uintptr]*chanState{}, vars: map[uintptr]*varState{},
		res: &Result{Probes: map[string]int{}}, inside: map[string]bool{}, pctChange: map[int]bool{}}
	if s.plan.StepCap == 0 {
		s.plan.StepCap = 20000
	}
	S = s
	s.root = s.newCtx(nil, "caller")
	if plan.CancelStep == 0 {
		s.cancelCtx(s.root, context.Canceled, nil, "caller(before call)")
		s.res.CallerCancelled = true
		s.res.CallerCancelSeq = s.seq
	}
	if plan.CancelTime > 0 {
		s.timers = append(s.timers, timer{at: plan.CancelTime, kind: "cancel"})
	}
	if plan.Deadline > 0 {
		s.timers = append(s.timers, timer{at: plan.Deadline, kind: "deadline"})
	}
	if plan.Strategy == "pct" {
		d := plan.PCTDepth
		for i := 0; i < d; i++ {
			s.pctChange[1+int(s.r.next()%60)] = true
		}
	}
	caller := s.spawn("main", nil, func() {
		out := body(s.root)
		s.res.Returned = true
		s.res.RetVals = out
		s.event(s.cur.id, "return", "")
		s.res.ReturnSeq = s.seq
		s.res.MainExit = classifyExit(s.cur.lastEvt)
		s.res.MainLastSync = s.cur.lastSync
		for _, t := range s.threads {
			if t != s.cur && !t.exited {
				s.res.LiveAtReturn = append(s.res.LiveAtReturn, s.describe(t))
			}
		}
		s.callerDone = true
	})
	_ = caller
	s.loop()
	// quiescence: record who is still parked, then unwind them
	for _, t := range s.threads {
		if !t.exited {
			s.res.Blocked = append(s.res.Blocked, s.describe(t))
		}
	}
	if !s.res.Returned {
		s.res.MainLastSync = s.threads[0].lastSync
	}
	for _, t := range s.threads {
		if !t.exited {
			t.killed = true
			t.wake <- wakeMsg{kill: true}
			s.waitYield(t)
		}
	}
	s.res.Steps = s.steps
	s.res.SimTime = s.clock
	s.res.Threads = len(s.threads)
	s.res.Decisions = append([]int{}, s.res.Decisions...)
	S = nil
	return s.res
}

func classifyExit(lastEvt string) string {
	switch {
	case strings.HasPrefix(lastEvt, "exit-err"):
		return "provider-error-return"
	case strings.HasPrefix(lastEvt, "select-ctx"):
		return "ctx-branch-return"
	case strings.HasPrefix(lastEvt, "wait-err"):
		return "wait-error-return"
	case strings.HasPrefix(lastEvt, "wait-ok"):
		return "final-return"
	case lastEvt == "start" || strings.HasPrefix(lastEvt, "exit-ok") || strings.HasPrefix(lastEvt, "select-chan") || strings.HasPrefix(lastEvt, "recv") || strings.HasPrefix(lastEvt, "close"):
		return "final-return"
	}
	return "other"
}

func (s *Sim) describe(t *thread) BlockedRec {
	b := BlockedRec{Thread: t.id, Name: t.name}
	switch t.op.kind {
	case opRecv:
		b.Op = "plain-recv"
		b.Detail = "<-" + strings.Join(t.op.names, ",")
		if cs := s.chans[t.op.chans[0]]; cs != nil && cs.ctx != nil {
			b.Op = "ctx-recv"
		} else if cs != nil {
			b.Chans = append(b.Chans, cs.name)
		}
	case opSelect:
		b.Op = "chan-select"
		for _, c := range t.op.chans {
			if cs := s.chans[c]; cs != nil && cs.ctx != nil {
				b.Op = "ctx-select"
			} else if cs != nil {
				b.Chans = append(b.Chans, cs.name)
			}
		}
		b.Detail = "select{" + strings.Join(t.op.names, ",") + "}"
	case opWait:
		b.Op = "wait"
	case opStall:
		b.Op = "stall"
		b.Detail = t.op.prov
	case opSleep:
		b.Op = "sleep"
		b.Detail = t.op.prov
	case opStart:
		b.Op = "start"
	case opGoSlot:
		b.Op = "go-slot"
		b.Detail = "eg.Go blocked by SetLimit"
	case opSend:
		b.Op = "chan-send"
		b.Detail = strings.Join(t.op.names, ",") + "<-"
		if cs := s.chans[t.op.chans[0]]; cs != nil {
			b.Chans = append(b.Chans, cs.name)
		}
	default:
		b.Op = "other"
	}
	return b
}

func (s *Sim) event(th int, kind, detail string) {
	s.seq++
	s.res.Events = append(s.res.Events, Event{Seq: s.seq, Time: s.clock, Thread: th, Kind: kind, Detail: detail})
}

// choose is the single source of nondeterminism: recorded decisions first, then the PRNG.
func (s *Sim) choose(n int) int {
	if n <= 1 {
		return 0
	}
	var c int
	if s.decIdx < len(s.plan.Decisions) {
		c = s.plan.Decisions[s.decIdx]
		if c < 0 || c >= n {
			c = c % n
			if c < 0 {
				c += n
			}
		}
	} else {
		c = int(s.r.next() % uint64(n))
	}
	s.decIdx++
	s.res.Decisions = append(s.res.Decisions, c)
	return c
}

func (s *Sim) spawn(name string, g *Group, body func()) *thread {
	t := &thread{id: len(s.threads), name: name, wake: make(chan wakeMsg), group: g}
	t.op = pendingOp{kind: opStart}
	t.parked = true
	if s.cur != nil {
		t.vc = append([]uint32{}, s.cur.vc...)
		s.tick(s.cur)
	}
	for len(t.vc) <= t.id {
		t.vc = append(t.vc, 0)
	}
	t.vc[t.id] = 1
	t.prio = int(s.r.next() % 1000)
	s.threads = append(s.threads, t)
	who := -1
	if s.cur != nil {
		who = s.cur.id
	}
	s.event(who, "spawn", fmt.Sprintf("%s#%d", name, t.id))
	go func() {
		m := <-t.wake
		if m.kill {
			t.exited = true
			s.yielded <- struct{}{}
			return
		}
		defer func() {
			if r := recover(); r != nil {
				if _, ok := r.(killSentinel); !ok {
					s.res.Panics = append(s.res.Panics, fmt.Sprintf("thread %s: %v", t.name, r))
					s.event(t.id, "panic", fmt.Sprint(r))
					// a panicking goroutine takes the real process down; here it just ends the thread
				}
			}
			t.exited = true
			t.parked = false
			if !t.killed {
				s.event(t.id, "thread-exit", "")
			}
			s.yielded <- struct{}{}
		}()
		t.lastEvt = "start"
		s.event(t.id, "start", "")
		body()
	}()
	return t
}

func (s *Sim) waitYield(t *thread) {
	select {
	case <-s.yielded:
	case <-time.After(Watchdog):
		s.res.Harness = fmt.Sprintf("watchdog: thread %s did not reach a yield point within %v (real code blocked outside the simulator's knowledge)", t.name, Watchdog)
		panic("simrt: " + s.res.Harness)
	}
}

// yield parks the current thread with its pending operation.
func (s *Sim) yield(op pendingOp) wakeMsg {
	t := s.cur
	t.op = op
	t.parked = true
	s.yielded <- struct{}{}
	m := <-t.wake
	if m.kill {
		panic(killSentinel{})
	}
	t.parked = false
	return m
}

func (s *Sim) enabled(t *thread) bool {
	if t.exited {
		return false
	}
	switch t.op.kind {
	case opStart, opClose, opEnter, opExitThread:
		return true
	case opRecv:
		return s.chans[t.op.chans[0]].ready()
	case opSend:
		return t.sendMatched || t.sendClosed
	case opSelect:
		if t.op.hasDef {
			return true
		}
		for _, c := range t.op.chans {
			if s.chans[c].ready() {
				return true
			}
		}
		return false
	case opSleep:
		if t.op.ctx != nil && t.op.ctx.err != nil {
			return true
		}
		return s.clock >= t.op.until
	case opStall:
		return s.released
	case opWait:
		for _, m := range t.op.group.members {
			if !m.exited {
				return false
			}
		}
		return true
	case opGoSlot:
		return t.op.group.active() < t.op.group.limit
	}
	return false
}

func (s *Sim) loop() {
	for {
		if s.steps >= s.plan.StepCap {
			s.res.StepCapHit = true
			return
		}
		if s.plan.CancelStep > 0 && s.steps == s.plan.CancelStep && !s.callerDone && s.root.err == nil {
			s.cancelCtx(s.root, context.Canceled, nil, "caller(step)")
			s.res.CallerCancelled = true
			s.res.CallerCancelSeq = s.seq
		}
		var en []*thread
		for _, t := range s.threads {
			if s.enabled(t) {
				en = append(en, t)
			}
		}
		if len(en) == 0 {
			if s.plan.Stall && !s.released {
				// the adversary holds every Async provider inside; nothing else can move: judge and release
				var in []string
				for k := range s.inside {
					in = append(in, k)
				}
				sort.Strings(in)
				s.res.StallReached = in
				s.res.StallReleased = true
				s.released = true
				s.event(-1, "stall-release", strings.Join(in, ","))
				continue
			}
			if !s.advanceClock() {
				return // quiescence
			}
			continue
		}
		s.res.DecAtStep = append(s.res.DecAtStep, s.decIdx)
		t := s.pick(en)
		s.steps++
		s.cur = t
		msg := wakeMsg{}
		if t.op.kind == opSelect {
			msg.branch = s.decideSelect(t)
		}
		t.wake <- msg
		s.waitYield(t)
		s.cur = nil
	}
}

// advanceClock jumps to the next timer or sleeper; false when there is none.
func (s *Sim) advanceClock() bool {
	next := int64(-1)
	for _, t := range s.threads {
		if !t.exited && t.op.kind == opSleep && (next < 0 || t.op.until < next) {
			next = t.op.until
		}
	}
	for _, tm := range s.timers {
		if next < 0 || tm.at < next {
			next = tm.at
		}
	}
	if next < 0 {
		return false
	}
	if next > s.clock {
		s.clock = next
	}
	var rest []timer
	for _, tm := range s.timers {
		if tm.at > s.clock {
			rest = append(rest, tm)
			continue
		}
		switch tm.kind {
		case "cancel":
			if !s.callerDone && s.root.err == nil {
				s.cancelCtx(s.root, context.Canceled, nil, "caller(time)")
				s.res.CallerCancelled = true
				s.res.CallerCancelSeq = s.seq
			}
		case "deadline":
			if s.root.err == nil {
				s.cancelCtx(s.root, context.DeadlineExceeded, nil, "deadline")
				if !s.callerDone {
					s.res.CallerCancelled = true
					s.res.CallerCancelSeq = s.seq
				}
			}
		}
	}
	s.timers = rest
	return true
}

func (s *Sim) pick(en []*thread) *thread {
	if len(en) == 1 {
		return en[0]
	}
	// with recorded decisions the strategy is irrelevant: the index into the enabled list (by thread id) is replayed
	if s.decIdx < len(s.plan.Decisions) {
		return en[s.choose(len(en))]
	}
	idx := -1
	switch s.plan.Strategy {
	case "mainfirst":
		idx = 0
		if s.r.next()%8 == 0 {
			idx = -1
		}
	case "mainlast":
		idx = len(en) - 1
		if en[0].id == 0 && len(en) > 1 && s.r.next()%8 != 0 {
			idx = 1 + int(s.r.next()%uint64(len(en)-1))
		}
	case "newest":
		idx = len(en) - 1
		if s.r.next()%8 == 0 {
			idx = -1
		}
	case "pct":
		if s.pctChange[s.steps] {
			// demote the currently highest-priority enabled thread
			best := 0
			for i, t := range en {
				if t.prio > en[best].prio {
					best = i
				}
			}
			en[best].prio = -s.steps
		}
		best := 0
		for i, t := range en {
			if t.prio > en[best].prio {
				best = i
			}
		}
		idx = best
	}
	if idx < 0 {
		return en[s.choose(len(en))]
	}
	// record the strategy's pick as a decision so that replay needs no strategy
	s.res.Decisions = append(s.res.Decisions, idx)
	s.decIdx++
	return en[idx]
}

func (s *Sim) decideSelect(t *thread) int {
	var ready []int
	ctxReady, chReady := -1, -1
	for i, c := range t.op.chans {
		if cs := s.chans[c]; cs.ready() {
			ready = append(ready, i)
			if cs.ctx != nil {
				ctxReady = i
			} else {
				chReady = i
			}
		}
	}
	if len(ready) == 0 {
		return -1 // default branch
	}
	if len(ready) == 1 {
		return ready[0]
	}
	s.res.Probes["select_both_ready"]++
	if s.decIdx >= len(s.plan.Decisions) && ctxReady >= 0 && chReady >= 0 {
		switch s.plan.ForceSelect {
		case "ctx":
			s.res.Decisions = append(s.res.Decisions, indexOf(ready, ctxReady))
			s.decIdx++
			s.res.Probes["select_forced_ctx"]++
			return ctxReady
		case "chan":
			s.res.Decisions = append(s.res.Decisions, indexOf(ready, chReady))
			s.decIdx++
			s.res.Probes["select_forced_chan"]++
			return chReady
		}
	}
	return ready[s.choose(len(ready))]
}

func indexOf(xs []int, v int) int {
	for i, x := range xs {
		if x == v {
			return i
		}
	}
	return 0
}

// ---------------------------------------------------------------- vector clocks

func (s *Sim) tick(t *thread) {
	for len(t.vc) <= t.id {
		t.vc = append(t.vc, 0)
	}
	t.vc[t.id]++
}

func join(dst *[]uint32, src []uint32) {
	for len(*dst) < len(src) {
		*dst = append(*dst, 0)
	}
	for i, v := range src {
		if v > (*dst)[i] {
			(*dst)[i] = v
		}
	}
}

func (s *Sim) release(t *thread, into *[]uint32) {
	join(into, t.vc)
	s.tick(t)
}

func (s *Sim) acquire(t *thread, from []uint32) { join(&t.vc, from) }

func hb(clk uint32, tid int, vc []uint32) bool { return tid < len(vc) && vc[tid] >= clk }

// ---------------------------------------------------------------- hooks called by instrumented code

func key(c any) uintptr {
	v := reflect.ValueOf(c)
	if v.Kind() != reflect.Chan {
		panic(fmt.Sprintf("simrt: %T is not a channel", c))
	}
	return v.Pointer()
}

func (s *Sim) chanOf(c any, name string) (uintptr, *chanState) {
	k := key(c)
	if k == 0 {
		return 0, nil
	}
	cs := s.chans[k]
	if cs == nil {
		cs = &chanState{name: name}
		s.chans[k] = cs
		s.keepAlive = append(s.keepAlive, c)
	}
	if cs.name == "" {
		cs.name = name
	}
	return k, cs
}

// Name is inserted after the declaration of a done-channel so that reports can call it by its variable name.
func Name(ch any, name string) {
	s := S
	k := key(ch)
	if k == 0 {
		return
	}
	cs := s.chans[k]
	if cs == nil {
		cs = &chanState{}
		s.chans[k] = cs
		s.keepAlive = append(s.keepAlive, ch)
	}
	cs.name = name
}

// Recv is inserted before a plain `<-ch` statement.
func Recv(ch <-chan struct{}, name string) {
	s := S
	k, cs := s.chanOf(ch, name)
	if cs == nil {
		// receive from a nil channel blocks forever
		s.yield(pendingOp{kind: opRecv, chans: []uintptr{0}, names: []string{name + "(nil)"}})
		return
	}
	s.cur.lastSync = "plain-recv"
	if cs.ctx != nil {
		s.cur.lastSync = "ctx-recv"
	}
	s.yield(pendingOp{kind: opRecv, chans: []uintptr{k}, names: []string{cs.name}})
	s.acquire(s.cur, cs.vc)
	s.takeSender(cs)
	s.cur.lastEvt = "recv"
	s.event(s.cur.id, "recv", cs.name)
}

// takeSender completes the rendezvous with a parked sender when the channel is not closed:
// the sender becomes runnable, and a helper goroutine performs the real send that the real
// receive (executed next by the current thread) is about to meet.
func (s *Sim) takeSender(cs *chanState) {
	if cs.closed || len(cs.senders) == 0 {
		return
	}
	snd := cs.senders[0]
	cs.senders = cs.senders[1:]
	snd.sendMatched = true
	s.acquire(s.cur, snd.sendVC)
	snd.recvVC = append([]uint32{}, s.cur.vc...)
	s.tick(s.cur)
	go snd.sendDo()
}

// Send replaces an unbuffered `ch <- v` statement: the thread parks until a receiver takes the value.
func Send(ch any, name string, do func()) {
	s := S
	k := key(ch)
	if k == 0 {
		// send on a nil channel blocks forever
		s.cur.lastSync = "chan-send"
		s.yield(pendingOp{kind: opSend, chans: []uintptr{0}, names: []string{name + "(nil)"}})
		return
	}
	_, cs := s.chanOf(ch, name)
	t := s.cur
	t.lastSync = "chan-send"
	if cs.closed {
		panic("send on closed channel " + cs.name)
	}
	t.sendMatched, t.sendClosed, t.sendDo = false, false, do
	t.sendVC = nil
	s.release(t, &t.sendVC)
	cs.senders = append(cs.senders, t)
	s.yield(pendingOp{kind: opSend, chans: []uintptr{k}, names: []string{cs.name}})
	if t.sendClosed {
		panic("send on closed channel " + cs.name)
	}
	s.acquire(t, t.recvVC)
	t.lastEvt = "send"
	s.event(t.id, "send", cs.name)
}

// Select is inserted before a select statement; the returned slice masks every
// operand except the branch the scheduler decided on.
func Select(hasDefault bool, names []string, chans ...<-chan struct{}) []<-chan struct{} {
	s := S
	keys := make([]uintptr, len(chans))
	nm := make([]string, len(chans))
	hasCtx := false
	for i, c := range chans {
		k, cs := s.chanOf(c, names[i])
		keys[i] = k
		nm[i] = names[i]
		if cs != nil {
			nm[i] = cs.name
			if cs.ctx != nil {
				hasCtx = true
			}
		}
	}
	s.cur.lastSync = "chan-select"
	if hasCtx {
		s.cur.lastSync = "ctx-select"
	}
	if len(chans) >= 3 {
		s.res.Probes["select_3plus"]++
	}
	m := s.yield(pendingOp{kind: opSelect, chans: keys, names: nm, hasDef: hasDefault})
	out := make([]<-chan struct{}, len(chans))
	if m.branch >= 0 {
		out[m.branch] = chans[m.branch]
		cs := s.chans[keys[m.branch]]
		s.acquire(s.cur, cs.vc)
		s.takeSender(cs)
		if cs.ctx != nil {
			s.cur.lastEvt = "select-ctx"
			if s.cur.id != 0 {
				s.res.GoroutineCtxExit = true
			}
		} else {
			s.cur.lastEvt = "select-chan"
		}
		s.event(s.cur.id, "select", nm[m.branch])
	} else {
		s.cur.lastEvt = "select-default"
		s.event(s.cur.id, "select", "default")
	}
	return out
}

// Close is inserted before close(ch). It returns false when the close must not be
// executed (double close / nil channel: reported, and the thread ends).
func Close(ch any, name string) {
	s := S
	k := key(ch)
	s.yield(pendingOp{kind: opClose, chans: []uintptr{k}, names: []string{name}})
	if k == 0 {
		s.res.DoubleClose = append(s.res.DoubleClose, "close of nil channel "+name)
		panic(killSentinel{})
	}
	_, cs := s.chanOf(ch, name)
	if cs.closed {
		s.res.DoubleClose = append(s.res.DoubleClose, "close of closed channel "+cs.name)
		s.event(s.cur.id, "double-close", cs.name)
		panic(killSentinel{})
	}
	cs.closed = true
	for _, snd := range cs.senders {
		snd.sendClosed = true // a send parked on a channel that gets closed panics
	}
	cs.senders = nil
	s.release(s.cur, &cs.vc)
	s.cur.lastEvt = "close"
	s.event(s.cur.id, "close", cs.name)
}

// Go is inserted for a bare go statement.
func Go(f func()) {
	s := S
	s.spawn("go", nil, f)
}

func addr(p any) uintptr {
	v := reflect.ValueOf(p)
	if v.Kind() != reflect.Pointer {
		panic(fmt.Sprintf("simrt: %T is not a pointer", p))
	}
	return v.Pointer()
}

// Reads records reads of variables (passed by address, with their names).
func Reads(site string, names []string, ptrs ...any) {
	s := S
	t := s.cur
	for i, p := range ptrs {
		a := addr(p)
		v := s.vars[a]
		if v == nil {
			v = &varState{keep: p, name: names[i]}
			s.vars[a] = v
		}
		if v.hasW && v.wTid != t.id && !hb(v.wClk, v.wTid, t.vc) {
			s.race(v.name, "write-read", v.wTid, t.id, v.wSite, site)
		}
		for len(v.rClk) <= t.id {
			v.rClk = append(v.rClk, 0)
			v.rSite = append(v.rSite, "")
		}
		v.rClk[t.id] = t.vc[t.id]
		v.rSite[t.id] = site
	}
}

// Writes records writes of variables.
func Writes(site string, names []string, ptrs ...any) {
	s := S
	t := s.cur
	for i, p := range ptrs {
		a := addr(p)
		v := s.vars[a]
		if v == nil {
			v = &varState{keep: p, name: names[i]}
			s.vars[a] = v
		}
		if v.hasW && v.wTid != t.id && !hb(v.wClk, v.wTid, t.vc) {
			s.race(v.name, "write-write", v.wTid, t.id, v.wSite, site)
		}
		for tid, c := range v.rClk {
			if c != 0 && tid != t.id && !hb(c, tid, t.vc) {
				s.race(v.name, "read-write", tid, t.id, v.rSite[tid], site)
			}
		}
		v.hasW, v.wTid, v.wClk, v.wSite = true, t.id, t.vc[t.id], site
	}
}

func (s *Sim) race(name, kind string, a, b int, sa, sb string) {
	if len(s.res.Races) < 16 {
		s.res.Races = append(s.res.Races, RaceRec{Var: name, Kind: kind, FirstThread: a, SecondThread: b, FirstSite: sa, SecondSite: sb})
	}
	s.event(b, "race", fmt.Sprintf("%s %s t%d(%s) vs t%d(%s)", kind, name, a, sa, b, sb))
}

// ---------------------------------------------------------------- providers

// ProviderError is the failure injected into a fallible provider.
type ProviderError struct{ Name string }

func (e *ProviderError) Error() string { return "injected failure of provider " + e.Name }

var latencies = []int64{0, 0, 1_000, 50_000, 1_000_000, 20_000_000, 300_000_000, 10_000_000_000}

// Call is the body of every generated provider function: it is the provider's
// entry and exit event, its simulated latency, its stall and its injected failure.
func Call(name string, nOut int, fallible bool, ctx context.Context, in ...string) ([]string, error) {
	s := S
	t := s.cur
	s.yield(pendingOp{kind: opEnter, prov: name})
	rec := CallRec{Name: name, Thread: t.id, In: append([]string{}, in...)}
	s.event(t.id, "enter", name+"("+strings.Join(in, ",")+")")
	rec.EnterSeq = s.seq
	idx := len(s.res.Calls)
	s.res.Calls = append(s.res.Calls, rec)
	var sc *Ctx
	if ctx != nil {
		sc, _ = ctx.(*Ctx)
	}
	if s.plan.Stall && s.plan.StallAll[name] && !s.released {
		s.inside[name] = true
		all := true
		for _, z := range s.plan.StallSet {
			if !s.inside[z] {
				all = false
			}
		}
		if all && len(s.plan.StallSet) > 0 {
			s.res.Probes["stall_all_inside"]++
		}
		s.yield(pendingOp{kind: opStall, prov: name})
	} else if s.plan.Latency {
		if d := latencies[s.choose(len(latencies))]; d > 0 {
			s.yield(pendingOp{kind: opSleep, until: s.clock + d, ctx: sc, prov: name})
		}
	}
	var err error
	if fallible && s.plan.Fail[name] {
		err = &ProviderError{Name: name}
	}
	if err == nil && fallible && sc != nil && sc.err != nil {
		// a context-aware provider gives up when its context is cancelled
		err = sc.err
		s.res.Probes["ctx_aware_abort"]++
	}
	r := &s.res.Calls[idx]
	if err != nil {
		r.Err = err
		t.lastEvt = "exit-err"
		s.event(t.id, "exit", name+" error: "+err.Error())
		r.ExitSeq = s.seq
		return nil, err
	}
	out := make([]string, nOut)
	for i := range out {
		out[i] = fmt.Sprintf("%s.%d(%s)", name, i, strings.Join(in, ","))
	}
	r.Out = out
	t.lastEvt = "exit-ok"
	s.event(t.id, "exit", name)
	r.ExitSeq = s.seq
	return out, nil
}

// ---------------------------------------------------------------- int terms

var internTab = map[string]int{}
var internRev []string

// Intern gives an int-typed value its term (deterministic per process: ids are handed out in first-use order,
// and terms are compared, never the ids).
func Intern(term string) int {
	if id, ok := internTab[term]; ok {
		return id
	}
	internRev = append(internRev, term)
	id := len(internRev) // 0 stays the zero value
	internTab[term] = id
	return id
}

func TermOfInt(i int) string {
	if i == 0 {
		return "<zero>"
	}
	if i < 0 || i > len(internRev) {
		return fmt.Sprintf("<int %d>", i)
	}
	return internRev[i-1]
}

// ---------------------------------------------------------------- context

// Ctx is the simulator-owned context.Context.
type Ctx struct {
	s        *Sim
	parent   *Ctx
	children []*Ctx
	done     chan struct{}
	err      error
	name     string
	derived  bool
}

func (s *Sim) newCtx(parent *Ctx, name string) *Ctx {
	c := &Ctx{s: s, parent: parent, done: make(chan struct{}), name: name}
	k := key(c.done)
	s.chans[k] = &chanState{name: name + ".Done()", ctx: c}
	if parent != nil {
		c.derived = true
		parent.children = append(parent.children, c)
		if parent.err != nil {
			s.cancelCtx(c, parent.err, nil, "parent already cancelled")
		}
	}
	return c
}

func (c *Ctx) Deadline() (time.Time, bool) { return time.Time{}, false }
func (c *Ctx) Done() <-chan struct{}       { return c.done }
func (c *Ctx) Err() error                  { return c.err }
func (c *Ctx) Value(key any) any           { return nil }
func (c *Ctx) String() string              { return "simctx(" + c.name + ")" }

// IsDerived reports whether err is the error of a context the injector derived itself.
func (c *Ctx) IsDerived() bool { return c.derived }

func (s *Sim) cancelCtx(c *Ctx, err error, by *thread, why string) {
	if c.err != nil {
		return
	}
	c.err = err
	cs := s.chans[key(c.done)]
	cs.closed = true
	if by != nil {
		s.release(by, &cs.vc)
	}
	close(c.done)
	who := -1
	if by != nil {
		who = by.id
	}
	if c.derived {
		s.res.DerivedCancelled = true
	}
	s.event(who, "cancel", c.name+": "+why)
	if len(c.children) == 0 {
		return
	}
	if by == nil && s.cur == nil {
		// An outside canceller (the caller, a deadline) closes the parent's Done channel first and reaches
		// the derived contexts afterwards, as context.cancelCtx.cancel does: other goroutines can observe
		// the parent cancelled and the child not yet. The propagation is a scheduler-visible step of its own.
		kids := append([]*Ctx{}, c.children...)
		var pt *thread
		pt = s.spawn("ctx-propagate", nil, func() {
			for _, ch := range kids {
				s.cancelCtx(ch, err, pt, "parent "+c.name)
			}
		})
		s.res.Probes["ctx_propagation_steps"]++
		return
	}
	for _, ch := range c.children {
		s.cancelCtx(ch, err, by, "parent "+c.name)
	}
}

// ---------------------------------------------------------------- errgroup core

// Group is the simulator side of the errgroup stub.
type Group struct {
	ctx     *Ctx
	members []*thread
	err     error
	n       int
	limit   int // SetLimit: maximum number of live goroutines (0 = unlimited)
}

func (g *Group) active() int {
	n := 0
	for _, m := range g.members {
		if !m.exited {
			n++
		}
	}
	return n
}

// SetLimit follows x/sync: Go blocks while limit goroutines are live.
func (g *Group) SetLimit(n int) { g.limit = n }

// TryGo starts f only if a slot is free.
func (g *Group) TryGo(f func() error) bool {
	if g.limit > 0 && g.active() >= g.limit {
		return false
	}
	g.Go(f)
	return true
}

// NewGroup backs errgroup.WithContext (ctx may be nil for a zero Group).
func NewGroup(parent context.Context, withCtx bool) (*Group, context.Context) {
	s := S
	g := &Group{}
	if !withCtx {
		return g, nil
	}
	p, _ := parent.(*Ctx)
	if p == nil {
		// a context the simulator does not own (context.Background()): derive from a fresh uncancellable root
		p = s.newCtx(nil, "foreign")
	}
	g.ctx = s.newCtx(p, "errgroup")
	return g, g.ctx
}

func (g *Group) Go(f func() error) {
	s := S
	if g.limit > 0 && g.active() >= g.limit {
		s.res.Probes["eg_go_blocked_by_limit"]++
		s.yield(pendingOp{kind: opGoSlot, group: g})
	}
	g.n++
	var t *thread
	t = s.spawn(fmt.Sprintf("eg.Go#%d", g.n), g, func() {
		err := f()
		if err != nil {
			if g.err == nil {
				g.err = err
				if g.ctx != nil {
					s.cancelCtx(g.ctx, context.Canceled, t, "errgroup: goroutine returned an error")
				}
			}
		}
	})
	g.members = append(g.members, t)
}

func (g *Group) Wait() error {
	s := S
	t := s.cur
	t.lastSync = "wait"
	s.yield(pendingOp{kind: opWait, group: g})
	for _, m := range g.members {
		s.acquire(t, m.vc)
	}
	if g.ctx != nil {
		s.cancelCtx(g.ctx, context.Canceled, t, "errgroup: Wait returned")
	}
	if g.err != nil {
		t.lastEvt = "wait-err"
	} else {
		t.lastEvt = "wait-ok"
	}
	s.event(t.id, "wait", fmt.Sprint(g.err))
	return g.err
}

// CallerCtx is the context the harness hands to the injector.
func (s *Sim) CallerCtx() *Ctx { return s.root }

// ErrIsCtx reports whether err is a plain context error (Canceled / DeadlineExceeded).
func ErrIsCtx(err error) bool {
	return errors.Is(err, context.Canceled) || errors.Is(err, context.DeadlineExceeded)
}
