package simrt

import (
	"context"
	"reflect"
	"testing"
)

// The generator never emits channel sends; a changed generator may. These tests pin the
// simulator's model of an unbuffered send against what Go does.

func runSend(seed uint64, body func(ctx context.Context)) *Result {
	return Run(Plan{Seed: seed, Strategy: "random", CancelStep: -1}, func(ctx context.Context) []reflect.Value {
		body(ctx)
		return nil
	})
}

func TestSendRendezvous(t *testing.T) {
	for seed := uint64(1); seed <= 50; seed++ {
		got := 0
		res := runSend(seed, func(ctx context.Context) {
			ch := make(chan struct{})
			Name(ch, "ch")
			g, _ := NewGroup(ctx, true)
			g.Go(func() error {
				Send(ch, "ch", func() { ch <- struct{}{} })
				return nil
			})
			Recv(ch, "ch")
			<-ch
			got++
			_ = g.Wait()
		})
		if !res.Returned || got != 1 || len(res.Blocked) != 0 || len(res.Panics) != 0 {
			t.Fatalf("seed %d: returned=%v got=%d blocked=%v panics=%v", seed, res.Returned, got, res.Blocked, res.Panics)
		}
	}
}

func TestSendWithoutReceiverBlocks(t *testing.T) {
	res := runSend(1, func(ctx context.Context) {
		ch := make(chan struct{})
		Name(ch, "ch")
		g, _ := NewGroup(ctx, true)
		g.Go(func() error {
			Send(ch, "ch", func() { ch <- struct{}{} })
			return nil
		})
	})
	if !res.Returned || len(res.LiveAtReturn) != 1 {
		t.Fatalf("returned=%v live=%v", res.Returned, res.LiveAtReturn)
	}
	if len(res.Blocked) != 1 || res.Blocked[0].Op != "chan-send" {
		t.Fatalf("blocked=%v", res.Blocked)
	}
}

func TestSelectTakesSender(t *testing.T) {
	for seed := uint64(1); seed <= 50; seed++ {
		res := runSend(seed, func(ctx context.Context) {
			a, b := make(chan struct{}), make(chan struct{})
			Name(a, "a")
			Name(b, "b")
			g, _ := NewGroup(ctx, true)
			g.Go(func() error {
				Send(b, "b", func() { b <- struct{}{} })
				return nil
			})
			sel := Select(false, []string{"a", "b"}, a, b)
			select {
			case <-sel[0]:
				panic("a is never ready")
			case <-sel[1]:
			}
			_ = g.Wait()
		})
		if !res.Returned || len(res.Panics) != 0 || len(res.Blocked) != 0 {
			t.Fatalf("seed %d: returned=%v panics=%v blocked=%v", seed, res.Returned, res.Panics, res.Blocked)
		}
	}
}

func TestCloseWithParkedSenderPanicsTheSender(t *testing.T) {
	sawPanic := false
	for seed := uint64(1); seed <= 50; seed++ {
		res := runSend(seed, func(ctx context.Context) {
			ch := make(chan struct{})
			Name(ch, "ch")
			g, _ := NewGroup(ctx, true)
			g.Go(func() error {
				Send(ch, "ch", func() { ch <- struct{}{} })
				return nil
			})
			Close(ch, "ch")
			close(ch)
			_ = g.Wait()
		})
		if len(res.Panics) > 0 {
			sawPanic = true
		}
	}
	if !sawPanic {
		t.Fatal("no schedule made the sender panic")
	}
}
