//go:build verifscratch

// Command conform checks the simulator's errgroup and context stubs against the real
// golang.org/x/sync/errgroup and package context: seeded scripts (k goroutines, some
// failing, optional cancellation of the parent) are run on the simulator under a random
// schedule; the completion order the simulator chose is then imposed on the real
// packages with gates, and everything observable must agree: what each goroutine sees in
// ctx.Err() when it finishes, which error Wait returns, the context after Wait.
package main

import (
	"context"
	"errors"
	"fmt"
	"os"
	"reflect"
	"strconv"
	"time"

	real "golang.org/x/sync/errgroup"

	sim "verif/rt/errgroup"
	"verif/rt/simrt"
)

type rng struct{ s uint64 }

func (r *rng) next() uint64 {
	r.s += 0x9e3779b97f4a7c15
	z := r.s
	z = (z ^ (z >> 30)) * 0xbf58476d1ce4e5b9
	z = (z ^ (z >> 27)) * 0x94d049bb133111eb
	return z ^ (z >> 31)
}

type obs struct {
	order   []int
	seen    []string // ctx.Err() seen by goroutine i when it finishes
	wait    string
	after   string
	parentC bool
}

func es(err error) string {
	if err == nil {
		return "nil"
	}
	return err.Error()
}

func main() {
	n := 300
	if len(os.Args) > 1 {
		n, _ = strconv.Atoi(os.Args[1])
	}
	kinds := map[string]int{}
	for s := 1; s <= n; s++ {
		r := &rng{s: uint64(s) * 7919}
		k := 1 + int(r.next()%5)
		fail := make([]bool, k)
		errs := make([]error, k)
		anyFail := false
		for i := range fail {
			fail[i] = r.next()%3 == 0
			errs[i] = fmt.Errorf("e%d", i)
			anyFail = anyFail || fail[i]
		}
		cancelStep := -1
		if !anyFail && r.next()%2 == 0 {
			cancelStep = int(r.next() % uint64(3*k+2))
		}
		zero := r.next()%7 == 0 && cancelStep < 0 // zero-value Group without context
		// ---- simulator
		so := obs{seen: make([]string, k)}
		plan := simrt.Plan{Seed: r.next(), Strategy: "random", CancelStep: cancelStep, Latency: r.next()%2 == 0}
		res := simrt.Run(plan, func(ctx context.Context) []reflect.Value {
			var g *sim.Group
			var c context.Context
			if zero {
				g = &sim.Group{}
				c = ctx
			} else {
				g, c = sim.WithContext(ctx)
			}
			for i := 0; i < k; i++ {
				g.Go(func() error {
					_, _ = simrt.Call(fmt.Sprint("g", i), 0, false, nil)
					so.seen[i] = es(c.Err())
					so.order = append(so.order, i)
					if fail[i] {
						return errs[i]
					}
					return nil
				})
			}
			so.wait = es(g.Wait())
			so.after = es(c.Err())
			return nil
		})
		if res.Harness != "" || !res.Returned {
			fmt.Printf("CONFORM: simulator run %d did not finish: %s\n", s, res.Harness)
			os.Exit(1)
		}
		so.parentC = res.CallerCancelled
		// position of the parent's cancellation in the completion order
		cancelAfter := -1
		if so.parentC {
			cancelAfter = 0
			for _, i := range so.order {
				if so.seen[i] == "nil" {
					cancelAfter++
				}
			}
		}
		// ---- real packages, same completion order
		ro := obs{seen: make([]string, k)}
		parent, cancel := context.WithCancel(context.Background())
		var g *real.Group
		var c context.Context
		if zero {
			g = &real.Group{}
			c = parent
		} else {
			g, c = real.WithContext(parent)
		}
		gates := make([]chan struct{}, k)
		done := make([]chan struct{}, k)
		for i := 0; i < k; i++ {
			gates[i], done[i] = make(chan struct{}), make(chan struct{})
			g.Go(func() error {
				<-gates[i]
				ro.seen[i] = es(c.Err())
				ro.order = append(ro.order, i)
				close(done[i])
				if fail[i] {
					return errs[i]
				}
				return nil
			})
		}
		firstFailSeen := false
		for pos, i := range so.order {
			if pos == cancelAfter {
				cancel()
			}
			close(gates[i])
			<-done[i]
			if fail[i] && !firstFailSeen && !zero {
				firstFailSeen = true
				// errgroup cancels right after the function returned: wait for it to be visible
				deadline := time.Now().Add(5 * time.Second)
				for c.Err() == nil && time.Now().Before(deadline) {
					time.Sleep(50 * time.Microsecond)
				}
			}
		}
		if cancelAfter >= len(so.order) {
			cancel()
		}
		ro.wait = es(g.Wait())
		ro.after = es(c.Err())
		if zero {
			// a zero Group has no derived context: "after" is the parent's state in both worlds
		}
		cancel()
		if !reflect.DeepEqual(so.seen, ro.seen) || so.wait != ro.wait || (so.after != ro.after && !(zero)) {
			fmt.Printf("CONFORM: script %d (k=%d fail=%v zero=%v cancelStep=%d order=%v) disagrees:\n  simulator: seen=%v wait=%s after=%s\n  real:      seen=%v wait=%s after=%s\n", s, k, fail, zero, cancelStep, so.order, so.seen, so.wait, so.after, ro.seen, ro.wait, ro.after)
			os.Exit(1)
		}
		switch {
		case zero:
			kinds["zero_group"]++
		case so.parentC:
			kinds["parent_cancelled"]++
		case anyFail:
			kinds["goroutine_failed"]++
		default:
			kinds["all_succeed"]++
		}
	}
	// context semantics the generated code relies on
	{
		res := simrt.Run(simrt.Plan{Seed: 1, CancelStep: 0}, func(ctx context.Context) []reflect.Value {
			if !errors.Is(ctx.Err(), context.Canceled) {
				fmt.Println("CONFORM: a context cancelled before the call must report context.Canceled")
				os.Exit(1)
			}
			select {
			case <-ctx.Done():
			default:
				fmt.Println("CONFORM: Done() of a cancelled context must be closed")
				os.Exit(1)
			}
			_, c := sim.WithContext(ctx)
			if !errors.Is(c.Err(), context.Canceled) {
				fmt.Println("CONFORM: a context derived from a cancelled one must be cancelled")
				os.Exit(1)
			}
			return nil
		})
		_ = res
		res = simrt.Run(simrt.Plan{Seed: 1, CancelStep: -1, Deadline: 1000, Latency: false}, func(ctx context.Context) []reflect.Value {
			return nil
		})
		_ = res
	}
	fmt.Printf("CONFORM: ok %d scripts %v\n", n, kinds)
}
