//go:build verifscratch

// Command maprw rewrites every range over a map-typed expression, and every
// maps.Keys / maps.Values / maps.All call, in the given packages of the scratch
// copy so that the iteration order comes from verifsim/simmap. It is compiled
// inside the scratch copy of the repository, so it uses the x/tools the repository pins.
package main

import (
	"bytes"
	"fmt"
	"go/ast"
	"go/format"
	"go/token"
	"go/types"
	"os"
	"strconv"
	"strings"

	"golang.org/x/tools/go/ast/astutil"
	"golang.org/x/tools/go/packages"
)

const simmapPath = "github.com/mazrean/kessoku/internal/verifsim/simmap"

func main() {
	if len(os.Args) < 3 {
		fmt.Fprintln(os.Stderr, "usage: maprw <module dir> <pattern>...")
		os.Exit(2)
	}
	fset := token.NewFileSet()
	cfg := &packages.Config{Mode: packages.NeedName | packages.NeedFiles | packages.NeedCompiledGoFiles | packages.NeedSyntax | packages.NeedTypes | packages.NeedTypesInfo | packages.NeedImports | packages.NeedDeps,
		Dir: os.Args[1], Fset: fset}
	pkgs, err := packages.Load(cfg, os.Args[2:]...)
	if err != nil {
		fmt.Fprintln(os.Stderr, "maprw:", err)
		os.Exit(2)
	}
	if packages.PrintErrors(pkgs) > 0 {
		os.Exit(2)
	}
	total := 0
	for _, pkg := range pkgs {
		for i, f := range pkg.Syntax {
			name := pkg.CompiledGoFiles[i]
			if strings.HasSuffix(name, "_test.go") {
				continue
			}
			n := 0
			wrap := func(fn string, x ast.Expr) ast.Expr {
				return &ast.CallExpr{Fun: &ast.SelectorExpr{X: ast.NewIdent("simmap"), Sel: ast.NewIdent(fn)}, Args: []ast.Expr{x}}
			}
			ast.Inspect(f, func(nd ast.Node) bool {
				switch s := nd.(type) {
				case *ast.RangeStmt:
					t := pkg.TypesInfo.TypeOf(s.X)
					if t == nil {
						return true
					}
					if _, ok := t.Underlying().(*types.Map); ok {
						s.X = wrap("All", s.X)
						n++
						fmt.Printf("maprw: %s: range over map\n", fset.Position(s.Pos()))
					}
				case *ast.CallExpr:
					sel, ok := s.Fun.(*ast.SelectorExpr)
					if !ok {
						return true
					}
					id, ok := sel.X.(*ast.Ident)
					if !ok {
						return true
					}
					pn, ok := pkg.TypesInfo.Uses[id].(*types.PkgName)
					if !ok || (pn.Imported().Path() != "maps" && pn.Imported().Path() != "golang.org/x/exp/maps") {
						return true
					}
					switch sel.Sel.Name {
					case "Keys", "Values", "All":
						if len(s.Args) == 1 {
							s.Fun = &ast.SelectorExpr{X: ast.NewIdent("simmap"), Sel: ast.NewIdent(sel.Sel.Name)}
							n++
							fmt.Printf("maprw: %s: maps.%s\n", fset.Position(s.Pos()), sel.Sel.Name)
						}
					}
				}
				return true
			})
			if n == 0 {
				continue
			}
			total += n
			astutil.AddNamedImport(fset, f, "simmap", simmapPath)
			// an import that became unused (maps) must go
			for _, imp := range f.Imports {
				p, _ := strconv.Unquote(imp.Path.Value)
				if p == "maps" && !astutil.UsesImport(f, p) {
					astutil.DeleteImport(fset, f, p)
				}
			}
			var buf bytes.Buffer
			if err := format.Node(&buf, fset, f); err != nil {
				fmt.Fprintln(os.Stderr, "maprw:", err)
				os.Exit(2)
			}
			if err := os.WriteFile(name, buf.Bytes(), 0o644); err != nil {
				fmt.Fprintln(os.Stderr, "maprw:", err)
				os.Exit(2)
			}
		}
	}
	fmt.Printf("maprw: %d iteration sites rewritten\n", total)
}
