// Package simmap puts Go's map iteration order behind a seam: the generator's
// `for k, v := range m` loops are rewritten (in a scratch copy) to
// `for k, v := range simmap.All(m)`, which yields the entries in an order chosen by a
// PRNG seeded from VERIF_MAPSEED: 0 = canonical (sorted), 1 = reverse, n = n-th shuffle.
package simmap

import (
	"cmp"
	"fmt"
	"iter"
	"os"
	"reflect"
	"slices"
	"strconv"
)

var (
	seed  uint64
	state uint64
	Calls int
)

func init() {
	if v := os.Getenv("VERIF_MAPSEED"); v != "" {
		n, err := strconv.ParseUint(v, 10, 64)
		if err != nil {
			panic("simmap: VERIF_MAPSEED is not an integer")
		}
		seed = n
	}
	state = seed * 0x9e3779b97f4a7c15
}

func next() uint64 {
	state += 0x9e3779b97f4a7c15
	z := state
	z = (z ^ (z >> 30)) * 0xbf58476d1ce4e5b9
	z = (z ^ (z >> 27)) * 0x94d049bb133111eb
	return z ^ (z >> 31)
}

// canon gives keys a process-independent order where the key type allows one
// (strings, numbers, bools); pointers fall back to their address.
func canon[K comparable](a, b K) int {
	va, vb := reflect.ValueOf(a), reflect.ValueOf(b)
	switch va.Kind() {
	case reflect.String:
		return cmp.Compare(va.String(), vb.String())
	case reflect.Int, reflect.Int8, reflect.Int16, reflect.Int32, reflect.Int64:
		return cmp.Compare(va.Int(), vb.Int())
	case reflect.Uint, reflect.Uint8, reflect.Uint16, reflect.Uint32, reflect.Uint64, reflect.Uintptr:
		return cmp.Compare(va.Uint(), vb.Uint())
	case reflect.Pointer, reflect.Chan, reflect.UnsafePointer:
		return cmp.Compare(va.Pointer(), vb.Pointer())
	case reflect.Bool:
		return cmp.Compare(fmt.Sprint(a), fmt.Sprint(b))
	}
	return cmp.Compare(fmt.Sprintf("%#v", a), fmt.Sprintf("%#v", b))
}

func order[M ~map[K]V, K comparable, V any](m M) []K {
	Calls++
	keys := make([]K, 0, len(m))
	for k := range m {
		keys = append(keys, k)
	}
	slices.SortFunc(keys, canon[K])
	switch seed {
	case 0:
	case 1:
		slices.Reverse(keys)
	default:
		for i := len(keys) - 1; i > 0; i-- {
			j := int(next() % uint64(i+1))
			keys[i], keys[j] = keys[j], keys[i]
		}
	}
	return keys
}

// All replaces ranging over a map.
func All[M ~map[K]V, K comparable, V any](m M) iter.Seq2[K, V] {
	return func(yield func(K, V) bool) {
		for _, k := range order(m) {
			v, ok := m[k]
			if !ok {
				continue // deleted during the iteration, as with a real range
			}
			if !yield(k, v) {
				return
			}
		}
	}
}

// Keys / Values replace maps.Keys / maps.Values.
func Keys[M ~map[K]V, K comparable, V any](m M) iter.Seq[K] {
	return func(yield func(K) bool) {
		for _, k := range order(m) {
			if _, ok := m[k]; ok && !yield(k) {
				return
			}
		}
	}
}

func Values[M ~map[K]V, K comparable, V any](m M) iter.Seq[V] {
	return func(yield func(V) bool) {
		for _, k := range order(m) {
			if v, ok := m[k]; ok && !yield(v) {
				return
			}
		}
	}
}
