// Package simioutil replaces the deprecated io/ioutil for the code under test.
package simioutil

import (
	"io"
	"io/fs"

	simos "verif/rt/simos"
)

var Discard = io.Discard

func ReadAll(r io.Reader) ([]byte, error)  { return io.ReadAll(r) }
func NopCloser(r io.Reader) io.ReadCloser  { return io.NopCloser(r) }
func ReadFile(name string) ([]byte, error) { return simos.ReadFile(name) }
func WriteFile(name string, data []byte, perm fs.FileMode) error {
	return simos.WriteFile(name, data, perm)
}
func TempFile(dir, pattern string) (*simos.File, error) { return simos.CreateTemp(dir, pattern) }
func TempDir(dir, pattern string) (string, error)       { return simos.MkdirTemp(dir, pattern) }
func ReadDir(name string) ([]fs.FileInfo, error) {
	ents, err := simos.ReadDir(name)
	if err != nil {
		return nil, err
	}
	out := make([]fs.FileInfo, 0, len(ents))
	for _, e := range ents {
		fi, err := e.Info()
		if err != nil {
			return nil, err
		}
		out = append(out, fi)
	}
	return out, nil
}
