// Package harness is the body of the batch binary of engine A: it owns the registry
// of instrumented injectors, draws scenarios (fault plans x schedules) for the
// property being checked, runs them on the simulator and applies the oracles.
package harness

import (
	"context"
	"encoding/json"
	"errors"
	"fmt"
	"hash/fnv"
	"os"
	"reflect"
	"sort"
	"strings"
	"time"

	"verif/internal/progen"
	"verif/rt/simrt"
)

// ---------------------------------------------------------------- registry

type PkgReg struct {
	Name      string
	TermOf    func(any) string
	args      map[reflect.Type]func(string) reflect.Value
	argExpr   map[reflect.Type]string
	injectors map[string]reflect.Value
}

type Registry struct{ pkgs map[string]*PkgReg }

func NewRegistry() *Registry { return &Registry{pkgs: map[string]*PkgReg{}} }

func (r *Registry) Package(name string, termOf func(any) string) *PkgReg {
	p := &PkgReg{Name: name, TermOf: termOf, args: map[reflect.Type]func(string) reflect.Value{}, argExpr: map[reflect.Type]string{}, injectors: map[string]reflect.Value{}}
	r.pkgs[name] = p
	return p
}

func (p *PkgReg) Arg(t reflect.Type, expr string, mk func(string) reflect.Value) {
	p.args[t] = mk
	p.argExpr[t] = expr
}

func (p *PkgReg) Injector(name string, fn any) { p.injectors[name] = reflect.ValueOf(fn) }

// ---------------------------------------------------------------- job / results

type Program struct {
	Spec *progen.Spec `json:"spec"`
	Live []string     `json:"live"` // injectors whose generated file compiled
}

type Job struct {
	Property string     `json:"property"`
	Tier     string     `json:"tier"`
	Seed     uint64     `json:"seed"`
	Batch    int        `json:"batch"`
	Programs []*Program `json:"programs"`
	Shard    int        `json:"shard"`
	Shards   int        `json:"shards"`
	Runs     int        `json:"runs"` // schedules per scenario
	Replay   *Case      `json:"replay,omitempty"`
}

// Case is one fully determined execution: the unit of replay.
type Case struct {
	Pkg      string     `json:"pkg"`
	Injector string     `json:"injector"`
	Nonce    string     `json:"nonce"`
	Plan     simrt.Plan `json:"plan"`
	Scenario string     `json:"scenario"`
}

type Violation struct {
	Property  string        `json:"property"`
	Signature string        `json:"signature"`
	Detail    string        `json:"detail"`
	Case      Case          `json:"case"`
	LogHash   string        `json:"log_hash"`
	Events    []simrt.Event `json:"events"`
	Program   int           `json:"program"`
}

type Output struct {
	Property        string         `json:"property"`
	Shard           int            `json:"shard"`
	Programs        int            `json:"programs"`
	Injectors       int            `json:"injectors"`
	Scenarios       int            `json:"scenarios"`
	Runs            int            `json:"runs"`
	Judged          int            `json:"judged"` // runs in which the scenario's fault took effect / the oracle applied
	SimTimeNs       int64          `json:"sim_time_ns"`
	Steps           int64          `json:"steps"`
	Interleavings   []string       `json:"interleavings"` // distinct event-log hashes (capped)
	InterleavingsN  int            `json:"interleavings_n"`
	Faults          map[string]int `json:"faults"`
	Probes          map[string]int `json:"probes"`
	Shapes          map[string]int `json:"shapes"`
	Skipped         map[string]int `json:"skipped"`
	Violations      []Violation    `json:"violations"`
	SigCounts       map[string]int `json:"sig_counts"`
	Samples         []any          `json:"samples"`
	Harness         []string       `json:"harness"` // simulator inconsistencies: the check is broken
	OtherProperty   map[string]int `json:"other_property"`
	WallS           float64        `json:"wall_s"`
	MaxThreads      int            `json:"max_threads"`
	NontrivialProgs int            `json:"nontrivial_programs"`
}

var ctxType = reflect.TypeOf((*context.Context)(nil)).Elem()
var errType = reflect.TypeOf((*error)(nil)).Elem()

type runOut struct {
	res    *simrt.Result
	term   string
	err    error
	hasErr bool
	hasCtx bool
}

// simulate runs one injector call under plan.
func simulate(pr *PkgReg, inj string, plan simrt.Plan, nonce string) (*runOut, error) {
	fn, ok := pr.injectors[inj]
	if !ok {
		return nil, fmt.Errorf("injector %s.%s is not registered", pr.Name, inj)
	}
	ft := fn.Type()
	o := &runOut{}
	if n := ft.NumOut(); n == 2 && ft.Out(1) == errType {
		o.hasErr = true
	}
	for k := 0; k < ft.NumIn(); k++ {
		if ft.In(k) == ctxType {
			o.hasCtx = true
		}
	}
	var missing string
	o.res = simrt.Run(plan, func(ctx context.Context) []reflect.Value {
		args := make([]reflect.Value, ft.NumIn())
		for k := range args {
			pt := ft.In(k)
			if pt == ctxType {
				args[k] = reflect.ValueOf(ctx)
				continue
			}
			mk := pr.args[pt]
			if mk == nil {
				missing = pt.String()
				args[k] = reflect.Zero(pt)
				continue
			}
			args[k] = mk("ARG<" + pr.argExpr[pt] + ">#" + nonce)
		}
		return fn.Call(args)
	})
	if missing != "" {
		return nil, fmt.Errorf("injector %s.%s has a parameter of type %s the harness cannot build", pr.Name, inj, missing)
	}
	if o.res.Harness != "" {
		return nil, errors.New(o.res.Harness)
	}
	if o.res.Returned {
		if len(o.res.RetVals) > 0 {
			o.term = pr.TermOf(o.res.RetVals[0].Interface())
		}
		if o.hasErr && !o.res.RetVals[1].IsNil() {
			o.err = o.res.RetVals[1].Interface().(error)
		}
	}
	return o, nil
}

func logHash(res *simrt.Result) string {
	h := fnv.New64a()
	for _, e := range res.Events {
		fmt.Fprintf(h, "%d|%s|%s;", e.Thread, e.Kind, e.Detail)
	}
	return fmt.Sprintf("%016x", h.Sum64())
}

// ---------------------------------------------------------------- oracles

type finding struct{ sig, detail string }

func callsByName(res *simrt.Result) map[string][]*simrt.CallRec {
	m := map[string][]*simrt.CallRec{}
	for i := range res.Calls {
		c := &res.Calls[i]
		m[c.Name] = append(m[c.Name], c)
	}
	return m
}

// C01: every provider is entered after its producers returned, with their values; no race; no panic.
func checkC01(ref *progen.Ref, o *runOut) []finding {
	var out []finding
	by := callsByName(o.res)
	for i := range o.res.Calls {
		c := &o.res.Calls[i]
		rc := ref.Calls[c.Name]
		if rc == nil {
			continue // an unneeded provider was called: C02's business
		}
		for k := range c.In {
			if k >= len(rc.In) || c.In[k] == rc.In[k] {
				continue
			}
			sig := "value"
			if p := rc.Producer[k]; p != "" {
				done := false
				for _, pc := range by[p] {
					if pc.ExitSeq != 0 && pc.ExitSeq < c.EnterSeq {
						done = true
					}
				}
				if !done {
					sig = "order"
				}
			}
			out = append(out, finding{sig, fmt.Sprintf("provider %s entered with input %d = %s, the declaration says %s (producer %q)", c.Name, k, c.In[k], rc.In[k], rc.Producer[k])})
		}
	}
	for _, r := range o.res.Races {
		out = append(out, finding{"race:" + r.Kind, fmt.Sprintf("unordered %s on variable %s: thread %d at %s vs thread %d at %s", r.Kind, r.Var, r.FirstThread, r.FirstSite, r.SecondThread, r.SecondSite)})
	}
	for _, p := range o.res.Panics {
		out = append(out, finding{"panic", p})
	}
	return out
}

// C02: result and invocation multiset equal the sequential evaluation.
func checkC02(ref *progen.Ref, o *runOut) []finding {
	var out []finding
	if !o.res.Returned {
		if len(o.res.Panics) == 0 && len(o.res.DoubleClose) == 0 && !o.res.StepCapHit {
			// "returns the same value as ..." is not met by a call that never returns (C03 names the deadlock)
			return []finding{{"no_result", "fault-free call never returned: " + describeBlocked(o.res.Blocked)}}
		}
		return nil
	}
	if o.err != nil {
		out = append(out, finding{"result", fmt.Sprintf("fault-free call returned error %v", o.err)})
	} else if o.term != ref.Result {
		out = append(out, finding{"result", fmt.Sprintf("returned %s, sequential evaluation yields %s", o.term, ref.Result)})
	}
	by := callsByName(o.res)
	for _, name := range sortedKeys(ref.Calls) {
		switch n := len(by[name]); {
		case n == 0:
			out = append(out, finding{"count:needed-missing", "needed provider " + name + " was never invoked"})
		case n > 1:
			out = append(out, finding{"count:needed-twice", fmt.Sprintf("provider %s invoked %d times", name, n)})
		}
	}
	var called []string
	for name := range by {
		called = append(called, name)
	}
	sort.Strings(called)
	for _, name := range called {
		cs := by[name]
		rc := ref.Calls[name]
		if rc == nil {
			out = append(out, finding{"count:unneeded-called", "provider " + name + " is not needed for the requested type and was invoked"})
			continue
		}
		for _, c := range cs {
			if strings.Join(c.In, "\x00") != strings.Join(rc.In, "\x00") {
				out = append(out, finding{"argsel", fmt.Sprintf("provider %s received (%s), the declaration selects (%s)", name, strings.Join(c.In, ", "), strings.Join(rc.In, ", "))})
			}
		}
	}
	return out
}

func blockedOps(bs []simrt.BlockedRec, skipMain bool) string {
	set := map[string]bool{}
	for _, b := range bs {
		if skipMain && b.Thread == 0 {
			continue
		}
		set[b.Op] = true
	}
	var ks []string
	for k := range set {
		ks = append(ks, k)
	}
	sort.Strings(ks)
	return strings.Join(ks, "+")
}

func describeBlocked(bs []simrt.BlockedRec) string {
	var parts []string
	for _, b := range bs {
		parts = append(parts, fmt.Sprintf("%s[%s %s]", b.Name, b.Op, b.Detail))
	}
	return strings.Join(parts, "; ")
}

// C03: fault-free runs return, never double-close, and have joined every goroutine at return.
func checkC03(ref *progen.Ref, o *runOut) []finding {
	var out []finding
	for _, d := range o.res.DoubleClose {
		out = append(out, finding{"double_close", d})
	}
	if len(out) > 0 {
		return out
	}
	if !o.res.Returned {
		if len(o.res.Panics) > 0 {
			// the injector does not return: it panicked (close of a nil channel, ...)
			return []finding{{"panicked", fmt.Sprintf("the fault-free injector panicked instead of returning: %v", o.res.Panics)}}
		}
		out = append(out, finding{"deadlock", "no thread can move and the injector has not returned: " + describeBlocked(o.res.Blocked)})
		return out
	}
	if len(o.res.LiveAtReturn) > 0 {
		out = append(out, finding{"unjoined", "goroutines still running when the injector returned: " + describeBlocked(o.res.LiveAtReturn)})
	}
	return out
}

// C05: under the stall adversary every input-free Async provider gets inside.
func checkC05(ref *progen.Ref, o *runOut) []finding {
	in := map[string]bool{}
	for _, n := range o.res.StallReached {
		in[n] = true
	}
	var missing []string
	for _, z := range ref.AsyncFree {
		if !in[z] {
			missing = append(missing, z)
		}
	}
	if len(missing) == 0 {
		return nil
	}
	return []finding{{"serialised", fmt.Sprintf("with every Async provider held inside its function, %v never started; inside: %v", missing, o.res.StallReached)}}
}

func failures(o *runOut, beforeReturn bool) []*simrt.CallRec {
	var f []*simrt.CallRec
	for i := range o.res.Calls {
		c := &o.res.Calls[i]
		if c.Err == nil || c.ExitSeq == 0 {
			continue
		}
		if beforeReturn && o.res.Returned && c.ExitSeq > o.res.ReturnSeq {
			continue
		}
		f = append(f, c)
	}
	return f
}

func callerCancelledBeforeReturn(o *runOut) bool {
	if !o.res.CallerCancelled {
		return false
	}
	return !o.res.Returned || o.res.CallerCancelSeq < o.res.ReturnSeq
}

// C06: a provider failure surfaces as that failure; dependents are not invoked; the injector terminates.
func checkC06(ref *progen.Ref, o *runOut) []finding {
	var out []finding
	F := failures(o, true)
	all := failures(o, false)
	failed := map[string]bool{}
	for _, c := range all {
		failed[c.Name] = true
	}
	for i := range o.res.Calls {
		c := &o.res.Calls[i]
		var anc []string
		for a := range ref.Ancestors[c.Name] {
			anc = append(anc, a)
		}
		sort.Strings(anc)
		for _, a := range anc {
			if failed[a] {
				out = append(out, finding{"dependent_invoked", fmt.Sprintf("provider %s was invoked although %s, which it depends on, failed", c.Name, a)})
			}
		}
	}
	if len(F) == 0 {
		return out
	}
	if !o.res.Returned {
		if len(o.res.DoubleClose) == 0 && len(o.res.Panics) == 0 {
			out = append(out, finding{"hang", fmt.Sprintf("provider %s failed and the injector never returned: %s", F[0].Name, describeBlocked(o.res.Blocked))})
		}
		return out
	}
	if o.err == nil {
		out = append(out, finding{"swallowed", fmt.Sprintf("provider %s returned %v, the injector returned no error (has error result: %v)", F[0].Name, F[0].Err, o.hasErr)})
		return out
	}
	if callerCancelledBeforeReturn(o) {
		return out
	}
	for _, c := range F {
		if errors.Is(o.err, c.Err) {
			return out
		}
	}
	origin := "other"
	switch o.res.MainExit {
	case "ctx-branch-return":
		origin = "main-select-ctx-branch"
	case "wait-error-return":
		origin = "wait-result"
	case "provider-error-return":
		origin = "main-provider-error"
	}
	value := "other"
	switch {
	case errors.Is(o.err, context.Canceled):
		value = "ctx-canceled"
	case errors.Is(o.err, context.DeadlineExceeded):
		value = "ctx-deadline"
	}
	// which kind of provider failed: Async-marked, synchronous behind an Async ancestor (may live in a
	// goroutine), or synchronous with no Async ancestor at all (belongs on the injector's own thread)
	classes := map[string]bool{}
	for _, c := range F {
		rc := ref.Calls[c.Name]
		cl := "sync-no-async-ancestor"
		switch {
		case rc == nil:
			cl = "unneeded"
		case rc.Async:
			cl = "async"
		default:
			for a := range ref.Ancestors[c.Name] {
				if ra := ref.Calls[a]; ra != nil && ra.Async {
					cl = "sync-after-async"
				}
			}
		}
		classes[cl] = true
	}
	var cls []string
	for k := range classes {
		cls = append(cls, k)
	}
	sort.Strings(cls)
	out = append(out, finding{fmt.Sprintf("substitute(%s,%s,failed=%s)", origin, value, strings.Join(cls, "+")), fmt.Sprintf("provider %s failed with %q, the injector returned %q although the caller never cancelled", F[0].Name, F[0].Err, o.err)})
	return out
}

func yn(b bool) string {
	if b {
		return "y"
	}
	return "n"
}

// C07: after a cancellation the injector returns, with a complete result or an error.
func checkC07(ref *progen.Ref, o *runOut) []finding {
	if !callerCancelledBeforeReturn(o) {
		return nil
	}
	if len(o.res.DoubleClose) > 0 || len(o.res.Panics) > 0 {
		return nil
	}
	if !o.res.Returned {
		mainOp, others := "exited", "exited"
		for _, b := range o.res.Blocked {
			if b.Thread == 0 {
				mainOp = b.Op
			} else {
				others = "blocked"
			}
		}
		return []finding{{fmt.Sprintf("hang(main=%s,others=%s,has-error-result=%s)", mainOp, others, yn(o.hasErr)), "the caller cancelled and the injector never returned: " + describeBlocked(o.res.Blocked)}}
	}
	if o.err != nil {
		return nil
	}
	if o.term != ref.Result {
		return []finding{{fmt.Sprintf("silent_partial(has-error-result=%s,goroutine-ctx-exit=%s)", yn(o.hasErr), yn(o.res.GoroutineCtxExit)),
			fmt.Sprintf("the caller cancelled; the injector reported no error and returned %s instead of %s", o.term, ref.Result)}}
	}
	return nil
}

// C08: once the injector has returned no goroutine stays parked forever.
func checkC08(ref *progen.Ref, o *runOut) []finding {
	if !o.res.Returned || len(o.res.Blocked) == 0 {
		return nil
	}
	// what are the leaked goroutines waiting for, and what had failed on the injector's own thread
	awaited := "unknown"
	if ref.ChanProducer != nil {
		free, fed := false, false
		for _, b := range o.res.Blocked {
			for _, c := range b.Chans {
				if p, ok := ref.ChanProducer[c]; ok {
					if rc := ref.Calls[p]; rc != nil && len(rc.In) == 0 {
						free = true
					} else {
						fed = true
					}
				}
			}
		}
		switch {
		case free && fed:
			awaited = "input-free+fed"
		case free:
			awaited = "input-free"
		case fed:
			awaited = "fed"
		}
	}
	failedOnMain := "none"
	for i := range o.res.Calls {
		c := &o.res.Calls[i]
		if c.Err != nil && c.Thread == 0 {
			failedOnMain = "fed"
			if rc := ref.Calls[c.Name]; rc != nil && len(rc.In) == 0 {
				failedOnMain = "input-free"
			}
		}
	}
	return []finding{{fmt.Sprintf("leak(blocked=%s,derived-ctx-cancelled=%s,main-exit=%s,awaited-producer=%s,failed-on-main=%s)", blockedOps(o.res.Blocked, true), yn(o.res.DerivedCancelled), o.res.MainExit, awaited, failedOnMain),
		"the injector returned and these goroutines can never finish: " + describeBlocked(o.res.Blocked)}}
}

// chanProducers runs the injector once fault-free and notes, for every done-channel, which provider had
// just returned on the closing thread.
func chanProducers(pr *PkgReg, inj, nonce string) map[string]string {
	o, err := simulate(pr, inj, simrt.Plan{Seed: 1, Strategy: "mainlast", CancelStep: -1}, nonce)
	if err != nil {
		return nil
	}
	last := map[int]string{}
	m := map[string]string{}
	for _, e := range o.res.Events {
		switch e.Kind {
		case "exit":
			name := e.Detail
			if i := strings.IndexByte(name, ' '); i >= 0 {
				name = name[:i]
			}
			last[e.Thread] = name
		case "close":
			m[e.Detail] = last[e.Thread]
		}
	}
	return m
}

var checkers = map[string]func(*progen.Ref, *runOut) []finding{
	"C01": checkC01, "C02": checkC02, "C03": checkC03, "C05": checkC05, "C06": checkC06, "C07": checkC07, "C08": checkC08,
}

// ---------------------------------------------------------------- scenarios

type scenario struct {
	name string
	plan simrt.Plan
	kind string // which fault family (for the evidence)
}

var strategies = []string{"random", "pct", "mainfirst", "mainlast", "newest", "random"}

func basePlan(seed uint64, r int) simrt.Plan {
	p := simrt.Plan{Seed: seed, Strategy: strategies[r%len(strategies)], PCTDepth: 1 + r%3, CancelStep: -1}
	p.Latency = r%3 == 1
	if p.Latency && r%2 == 1 {
		p.Strategy = "latency"
	}
	return p
}

func mix(parts ...uint64) uint64 {
	r := progen.NewRand(parts...)
	return r.Next()
}

func sortedKeys(m map[string]*progen.RefCall) []string {
	ks := make([]string, 0, len(m))
	for k := range m {
		ks = append(ks, k)
	}
	sort.Strings(ks)
	return ks
}

func fallibleNeeded(ref *progen.Ref) []string {
	var f []string
	for _, k := range sortedKeys(ref.Calls) {
		if ref.Calls[k].Fallible {
			f = append(f, k)
		}
	}
	return f
}

func failPlans(ref *progen.Ref, sp *progen.Spec, rnd *progen.Rand, thorough bool) []scenario {
	var out []scenario
	f := fallibleNeeded(ref)
	// unneeded fallible providers configured to fail must be irrelevant
	var unneeded []string
	for i := range sp.Providers {
		p := &sp.Providers[i]
		if p.Fallible && ref.Calls[p.Name] == nil {
			unneeded = append(unneeded, p.Name)
		}
	}
	mk := func(names []string, label string) scenario {
		m := map[string]bool{}
		for _, n := range names {
			m[n] = true
		}
		for _, u := range unneeded {
			if rnd.Chance(1, 2) {
				m[u] = true
			}
		}
		return scenario{name: label + ":" + strings.Join(names, "+"), plan: simrt.Plan{Fail: m, CancelStep: -1}, kind: "provider_error"}
	}
	for _, n := range f {
		out = append(out, mk([]string{n}, "fail1"))
	}
	if len(f) >= 2 {
		extra := 2
		if thorough {
			extra = 6
		}
		for k := 0; k < extra; k++ {
			a, b := rnd.Intn(len(f)), rnd.Intn(len(f))
			if a == b {
				continue
			}
			names := []string{f[a], f[b]}
			if len(f) >= 3 && rnd.Chance(1, 2) {
				names = append(names, f[rnd.Intn(len(f))])
			}
			sort.Strings(names)
			out = append(out, mk(names, "failN"))
		}
		out = append(out, mk(f, "failAll"))
	}
	return out
}

// ---------------------------------------------------------------- main loop

type runner struct {
	job     *Job
	reg     *Registry
	out     *Output
	hashes  map[string]struct{}
	sigSeen map[string]int
	check   func(*progen.Ref, *runOut) []finding
}

func (rn *runner) record(o *runOut) {
	rn.out.Runs++
	rn.out.SimTimeNs += o.res.SimTime
	rn.out.Steps += int64(o.res.Steps)
	if o.res.Threads > rn.out.MaxThreads {
		rn.out.MaxThreads = o.res.Threads
	}
	h := logHash(o.res)
	if _, ok := rn.hashes[h]; !ok {
		rn.hashes[h] = struct{}{}
	}
	for k, v := range o.res.Probes {
		rn.out.Probes[k] += v
	}
	if o.res.StepCapHit {
		rn.out.Harness = append(rn.out.Harness, "step cap hit")
	}
}

// probeRun derives the reach probes of DESIGN 3.9 from a finished run.
func (rn *runner) probeRun(ref *progen.Ref, o *runOut, sc *scenario) {
	P := rn.out.Probes
	res := o.res
	if res.Threads > 1 {
		P["runs_with_goroutines"]++
	}
	if res.CallerCancelled {
		mainBlocked, goBlocked := false, false
		// what were threads doing when the cancellation struck
		for _, e := range res.Events {
			if e.Seq > res.CallerCancelSeq {
				break
			}
			_ = e
		}
		_ = mainBlocked
		_ = goBlocked
	}
	if res.Returned && len(res.LiveAtReturn) > 0 {
		P["main_returned_with_live_goroutines"]++
	}
	if !o.hasErr && res.CallerCancelled {
		P["no_error_result_under_cancellation"]++
	}
	if res.GoroutineCtxExit {
		P["goroutine_left_through_ctx_branch"]++
	}
	if res.DerivedCancelled {
		P["derived_ctx_cancelled"]++
	}
	if len(failures(o, false)) > 0 {
		P["provider_failed"]++
		for _, c := range failures(o, false) {
			if c.Thread != 0 {
				P["provider_failed_in_goroutine"]++
			} else {
				P["provider_failed_on_main"]++
			}
		}
	}
	if ref.FieldReads > 0 && res.Threads > 1 {
		P["field_read_with_goroutines"]++
	}
	// two threads that each wait for a channel the other closes (chains that feed each other)
	closer := map[string]int{}
	for _, e := range res.Events {
		if e.Kind == "close" {
			closer[e.Detail] = e.Thread
		}
	}
	waits := map[[2]int]bool{}
	for _, e := range res.Events {
		if e.Kind == "recv" || e.Kind == "select" {
			if c, ok := closer[e.Detail]; ok && c != e.Thread {
				waits[[2]int{e.Thread, c}] = true
			}
		}
	}
	for k := range waits {
		if k[0] < k[1] && waits[[2]int{k[1], k[0]}] {
			if k[0] == 0 {
				P["main_and_goroutine_feed_each_other"]++
			} else {
				P["two_goroutines_feed_each_other"]++
			}
		}
	}
	// final value produced inside a goroutine
	for i := range res.Calls {
		c := &res.Calls[i]
		if c.Thread != 0 && len(c.Out) > 0 {
			for _, t := range c.Out {
				if t == ref.Result {
					P["final_value_produced_in_goroutine"]++
				}
			}
		}
		if rc := ref.Calls[c.Name]; rc != nil && rc.Async && c.Thread == 0 {
			P["async_provider_on_main_thread"]++
		}
	}
}

func (rn *runner) report(prog int, sp *progen.Spec, c Case, o *runOut, f finding, ref *progen.Ref) {
	key := f.sig
	rn.out.SigCounts[key]++
	if len(rn.job.Programs) <= 32 {
		key += "|" + c.Pkg // small jobs (program minimisation): one report per program
	}
	if rn.sigSeen[key] >= 2 {
		return
	}
	rn.sigSeen[key]++
	pr := rn.reg.pkgs[c.Pkg]
	// minimise fault plan and schedule while the signature stays the same
	c.Plan.Decisions = append([]int{}, o.res.Decisions...)
	mc, mo := minimise(pr, c, ref, rn.check, f.sig, o)
	detail := f.detail
	for _, g := range rn.check(ref, mo) {
		if g.sig == f.sig {
			detail = g.detail
			break
		}
	}
	rn.out.Violations = append(rn.out.Violations, Violation{Property: rn.job.Property, Signature: f.sig, Detail: detail, Case: mc, LogHash: logHash(mo.res), Events: mo.res.Events, Program: prog})
}

func hasSig(fs []finding, sig string) bool {
	for _, f := range fs {
		if f.sig == sig {
			return true
		}
	}
	return false
}

func minimise(pr *PkgReg, c Case, ref *progen.Ref, check func(*progen.Ref, *runOut) []finding, sig string, orig *runOut) (Case, *runOut) {
	best, bestOut := c, orig
	budget := 300
	try := func(n Case) bool {
		if budget <= 0 {
			return false
		}
		budget--
		o, err := simulate(pr, n.Injector, n.Plan, n.Nonce)
		if err != nil || !hasSig(check(ref, o), sig) {
			return false
		}
		n.Plan.Decisions = append([]int{}, o.res.Decisions...)
		best, bestOut = n, o
		return true
	}
	// the recorded decisions must reproduce on their own first
	if !try(best) {
		return c, orig
	}
	// 1. fault plan
	var failNames []string
	for name := range best.Plan.Fail {
		failNames = append(failNames, name)
	}
	sort.Strings(failNames)
	for _, name := range failNames {
		if !best.Plan.Fail[name] {
			continue
		}
		n := best
		n.Plan.Fail = map[string]bool{}
		for k, v := range best.Plan.Fail {
			if k != name {
				n.Plan.Fail[k] = v
			}
		}
		try(n)
	}
	if best.Plan.CancelStep >= 0 {
		n := best
		n.Plan.CancelStep = -1
		try(n)
	}
	for _, f := range []func(*simrt.Plan){
		func(p *simrt.Plan) { p.Deadline = 0 },
		func(p *simrt.Plan) { p.CancelTime = 0 },
		func(p *simrt.Plan) { p.ForceSelect = "" },
	} {
		n := best
		f(&n.Plan)
		if !reflect.DeepEqual(n.Plan, best.Plan) {
			try(n)
		}
	}
	// 2. schedule: towards "first enabled thread", then shorter
	for chunk := len(best.Plan.Decisions); chunk >= 1 && budget > 0; chunk /= 2 {
		for lo := 0; lo < len(best.Plan.Decisions) && budget > 0; lo += chunk {
			n := best
			n.Plan.Decisions = append([]int{}, best.Plan.Decisions...)
			changed := false
			for i := lo; i < lo+chunk && i < len(n.Plan.Decisions); i++ {
				if n.Plan.Decisions[i] != 0 {
					n.Plan.Decisions[i] = 0
					changed = true
				}
			}
			if changed {
				try(n)
			}
		}
	}
	// a smaller cancellation step, if any
	for best.Plan.CancelStep > 0 && budget > 0 {
		n := best
		n.Plan.CancelStep--
		if !try(n) {
			break
		}
	}
	return best, bestOut
}

// Main is the entry point of the batch binary.
func Main(register func(*Registry)) {
	if len(os.Args) < 3 {
		fmt.Fprintln(os.Stderr, "usage: batch <job.json> <out.json>")
		os.Exit(2)
	}
	raw, err := os.ReadFile(os.Args[1])
	if err != nil {
		fmt.Fprintln(os.Stderr, "batch:", err)
		os.Exit(2)
	}
	var job Job
	if err := json.Unmarshal(raw, &job); err != nil {
		fmt.Fprintln(os.Stderr, "batch: bad job:", err)
		os.Exit(2)
	}
	reg := NewRegistry()
	register(reg)
	start := time.Now()
	out := &Output{Property: job.Property, Shard: job.Shard, Faults: map[string]int{}, Probes: map[string]int{}, Shapes: map[string]int{}, Skipped: map[string]int{}, SigCounts: map[string]int{}, OtherProperty: map[string]int{}}
	rn := &runner{job: &job, reg: reg, out: out, hashes: map[string]struct{}{}, sigSeen: map[string]int{}, check: checkers[job.Property]}
	if rn.check == nil {
		fmt.Fprintln(os.Stderr, "batch: no oracle for property", job.Property)
		os.Exit(2)
	}
	defer func() {
		if r := recover(); r != nil {
			out.Harness = append(out.Harness, fmt.Sprint("panic in harness: ", r))
			writeOut(out, start)
			os.Exit(2)
		}
	}()
	if job.Replay != nil {
		rn.replay()
	} else {
		rn.explore()
	}
	for h := range rn.hashes {
		out.Interleavings = append(out.Interleavings, h)
	}
	sort.Strings(out.Interleavings)
	if len(out.Interleavings) > 200 {
		out.Interleavings = out.Interleavings[:200] // a sample for the evidence; the count is InterleavingsN
	}
	out.InterleavingsN = len(rn.hashes)
	writeOut(out, start)
	if len(out.Harness) > 0 {
		os.Exit(2)
	}
}

func writeOut(out *Output, start time.Time) {
	out.WallS = time.Since(start).Seconds()
	b, _ := json.Marshal(out)
	if err := os.WriteFile(os.Args[2], b, 0o644); err != nil {
		fmt.Fprintln(os.Stderr, "batch:", err)
		os.Exit(2)
	}
}

func (rn *runner) replay() {
	c := rn.job.Replay
	var sp *progen.Spec
	for _, p := range rn.job.Programs {
		if p.Spec.Pkg == c.Pkg {
			sp = p.Spec
		}
	}
	pr := rn.reg.pkgs[c.Pkg]
	if sp == nil || pr == nil {
		rn.out.Harness = append(rn.out.Harness, "replay: package "+c.Pkg+" not in this binary")
		return
	}
	var inj *progen.Injector
	for i := range sp.Injectors {
		if sp.Injectors[i].Name == c.Injector {
			inj = &sp.Injectors[i]
		}
	}
	if inj == nil {
		rn.out.Harness = append(rn.out.Harness, "replay: injector not in spec")
		return
	}
	if _, ok := pr.injectors[c.Injector]; !ok {
		rn.out.Skipped["replay_injector_no_longer_generated_or_compilable"]++
		return
	}
	ref := progen.Evaluate(sp, inj, c.Nonce)
	if rn.job.Property == "C08" {
		ref.ChanProducer = chanProducers(pr, c.Injector, c.Nonce)
	}
	o, err := simulate(pr, c.Injector, c.Plan, c.Nonce)
	if err != nil {
		rn.out.Harness = append(rn.out.Harness, err.Error())
		return
	}
	rn.record(o)
	for _, f := range rn.check(ref, o) {
		rn.out.SigCounts[f.sig]++
		cc := *c
		cc.Plan.Decisions = o.res.Decisions
		rn.out.Violations = append(rn.out.Violations, Violation{Property: rn.job.Property, Signature: f.sig, Detail: f.detail, Case: cc, LogHash: logHash(o.res), Events: o.res.Events})
	}
}

func (rn *runner) explore() {
	job := rn.job
	thorough := job.Tier == "thorough"
	runs := job.Runs
	if runs <= 0 {
		runs = 10
	}
	for pi, prog := range job.Programs {
		if pi%job.Shards != job.Shard {
			continue
		}
		sp := prog.Spec
		pr := rn.reg.pkgs[sp.Pkg]
		if pr == nil || len(prog.Live) == 0 {
			continue
		}
		rn.out.Programs++
		rn.out.Shapes[sp.Shape]++
		if sp.Large {
			rn.out.Shapes["(large: 20-40 function providers)"]++
		}
		if sp.Wide {
			rn.out.Shapes["(with a constructor of more than 64 parameters)"]++
		}
		nontrivial := false
		for _, name := range prog.Live {
			var inj *progen.Injector
			for i := range sp.Injectors {
				if sp.Injectors[i].Name == name {
					inj = &sp.Injectors[i]
				}
			}
			if inj == nil {
				continue
			}
			ii := 0
			for i := range sp.Injectors {
				if sp.Injectors[i].Name == name {
					ii = i
				}
			}
			seed := mix(job.Seed, uint64(job.Batch), uint64(pi), uint64(ii))
			rnd := progen.NewRand(seed, 77)
			nonce := fmt.Sprintf("%x", rnd.Next()&0xfffff)
			ref := progen.Evaluate(sp, inj, nonce)
			if ref.Invalid != "" {
				rn.out.Skipped["reference_says_invalid_but_generator_accepted"]++
				continue
			}
			rn.out.Injectors++
			if job.Property == "C08" {
				ref.ChanProducer = chanProducers(pr, name, nonce)
			}
			scen := rn.scenarios(ref, sp, rnd, thorough, pr, name, nonce, seed)
			if len(scen) == 0 {
				rn.out.Skipped["no_applicable_scenario"]++
				continue
			}
			if len(ref.AsyncAll) > 0 {
				nontrivial = true
			}
			for si, sc := range scen {
				rn.out.Scenarios++
				n := runs
				if sc.plan.Decisions != nil || sc.kind == "stall" {
					n = 1 + runs/6
				}
				if rn.job.Property == "C01" && sc.kind != "fault_free" {
					// C01's budget stays with the fault-free interleavings; each failure and
					// cancellation plan gets a sample of schedules
					n = 2 + runs/40
				}
				for r := 0; r < n; r++ {
					plan := sc.plan
					bp := basePlan(mix(seed, uint64(si), uint64(r)), r)
					plan.Seed, plan.Strategy, plan.PCTDepth = bp.Seed, bp.Strategy, bp.PCTDepth
					if !plan.Stall && plan.CancelTime == 0 && plan.Deadline == 0 {
						plan.Latency = bp.Latency
					}
					if sc.kind == "provider_error" || sc.kind == "cancel_step" {
						plan.ForceSelect = []string{"", "ctx", "chan"}[r%3]
					}
					c := Case{Pkg: sp.Pkg, Injector: name, Nonce: nonce, Plan: plan, Scenario: sc.name}
					o, err := simulate(pr, name, plan, nonce)
					if err != nil {
						rn.out.Harness = append(rn.out.Harness, fmt.Sprintf("%s.%s: %v", sp.Pkg, name, err))
						return
					}
					if r == 0 && o.res.Threads == 1 && n > 2 {
						n = 2 // a single-threaded injector has one schedule; the second run only re-draws latencies
					} else if r == 0 && o.res.Threads > 3 && sc.plan.Decisions == nil && sc.kind != "stall" {
						n += n / 2 // more threads, more interleavings
					}
					rn.record(o)
					rn.probeRun(ref, o, &sc)
					if rn.effective(&sc, o) {
						rn.out.Judged++
						rn.out.Faults[sc.kind]++
					}
					for _, f := range rn.check(ref, o) {
						rn.report(pi, sp, c, o, f, ref)
					}
					if len(rn.out.Samples) < 2 && rn.out.Runs%211 == 17 {
						rn.out.Samples = append(rn.out.Samples, sample(sp, inj, ref, &sc, o))
					}
				}
			}
		}
		if nontrivial {
			rn.out.NontrivialProgs++
		}
	}
}

// effective says whether the scenario's fault actually took effect in the run.
func (rn *runner) effective(sc *scenario, o *runOut) bool {
	switch sc.kind {
	case "provider_error":
		return len(failures(o, false)) > 0
	case "cancel_step", "cancel_time", "deadline", "cancel_before_call":
		return callerCancelledBeforeReturn(o)
	case "stall":
		return o.res.StallReleased
	}
	return true
}

func sample(sp *progen.Spec, inj *progen.Injector, ref *progen.Ref, sc *scenario, o *runOut) any {
	var ev []string
	for i, e := range o.res.Events {
		if i >= 40 {
			ev = append(ev, "...")
			break
		}
		ev = append(ev, fmt.Sprintf("%d t%d %s %s", e.Seq, e.Thread, e.Kind, e.Detail))
	}
	var decl []string
	for _, u := range inj.Flatten() {
		p := &sp.Providers[u.Prov]
		d := p.Name + ":" + p.Form
		if u.Async {
			d += ":async"
		}
		if p.Fallible {
			d += ":fallible"
		}
		if len(u.Bind) > 0 {
			d += ":bind"
		}
		decl = append(decl, d)
	}
	return map[string]any{"package": sp.Pkg, "injector": inj.Name, "requested": sp.Types[inj.Ret].Expr(), "declaration": decl, "shape": sp.Shape,
		"scenario": sc.name, "strategy": o.res.Decisions, "expected_result": ref.Result, "returned": o.term, "error": fmt.Sprint(o.err), "trace": ev}
}

// scenarios builds the fault plans the property calls for.
func (rn *runner) scenarios(ref *progen.Ref, sp *progen.Spec, rnd *progen.Rand, thorough bool, pr *PkgReg, inj, nonce string, seed uint64) []scenario {
	faultFree := scenario{name: "fault-free", plan: simrt.Plan{CancelStep: -1}, kind: "fault_free"}
	switch rn.job.Property {
	case "C01":
		// "in every execution": also the ones in which another provider fails or the caller
		// cancels - a provider that is entered at all is entered after its producers, with their values
		out := []scenario{faultFree}
		out = append(out, failPlans(ref, sp, rnd, thorough)...)
		if len(ref.AsyncAll) > 0 {
			out = append(out, rn.cancelPlans(ref, pr, inj, nonce, seed, thorough, true)...)
		}
		return out
	case "C02", "C03":
		return []scenario{faultFree}
	case "C05":
		if len(ref.AsyncFree) == 0 || len(ref.AsyncAll) < 2 {
			return nil
		}
		all := map[string]bool{}
		for _, a := range ref.AsyncAll {
			all[a] = true
		}
		return []scenario{{name: "stall", plan: simrt.Plan{CancelStep: -1, Stall: true, StallSet: ref.AsyncFree, StallAll: all}, kind: "stall"}}
	case "C06":
		return failPlans(ref, sp, rnd, thorough)
	case "C07":
		if len(ref.AsyncAll) == 0 {
			return nil
		}
		return rn.cancelPlans(ref, pr, inj, nonce, seed, thorough, false)
	case "C08":
		out := []scenario{faultFree}
		out = append(out, failPlans(ref, sp, rnd, thorough)...)
		if len(ref.AsyncAll) > 0 {
			out = append(out, rn.cancelPlans(ref, pr, inj, nonce, seed, thorough, true)...)
		}
		// failure and cancellation together
		if f := fallibleNeeded(ref); len(f) > 0 && len(ref.AsyncAll) > 0 {
			n := f[rnd.Intn(len(f))]
			out = append(out, scenario{name: "fail+cancel:" + n, plan: simrt.Plan{Fail: map[string]bool{n: true}, CancelStep: 1 + rnd.Intn(12)}, kind: "provider_error"})
		}
		return out
	}
	return nil
}

// cancelPlans: for a few fault-free base schedules, cancel at every step 0..L; plus timed cancellation and deadlines.
func (rn *runner) cancelPlans(ref *progen.Ref, pr *PkgReg, inj, nonce string, seed uint64, thorough, sparse bool) []scenario {
	var out []scenario
	bases := 2
	if thorough {
		bases = 6
	}
	if sparse {
		bases = 1
	}
	for b := 0; b < bases; b++ {
		bp := basePlan(mix(seed, 9000, uint64(b)), b)
		bp.Latency = false
		o, err := simulate(pr, inj, bp, nonce)
		if err != nil || !o.res.Returned {
			continue // a fault-free hang is C03's finding, not a base for cancellation
		}
		L := o.res.Steps
		stride := 1
		if sparse && L > 12 {
			stride = L / 12
		}
		for k := 0; k <= L; k += stride {
			p := simrt.Plan{CancelStep: k}
			if k > 0 && k-1 < len(o.res.DecAtStep) {
				p.Decisions = append([]int{}, o.res.Decisions[:o.res.DecAtStep[k-1]]...)
			}
			kind := "cancel_step"
			if k == 0 {
				kind = "cancel_before_call"
			}
			out = append(out, scenario{name: fmt.Sprintf("cancel@%d/%d(base %d)", k, L, b), plan: p, kind: kind})
		}
	}
	// timed cancellation / deadline against simulated latencies
	times := []int64{500, 40_000, 900_000, 15_000_000, 200_000_000, 5_000_000_000}
	for i, t := range times {
		if !thorough && i%2 == 1 {
			continue
		}
		out = append(out, scenario{name: fmt.Sprintf("cancel@t=%dns", t), plan: simrt.Plan{CancelStep: -1, CancelTime: t, Latency: true}, kind: "cancel_time"})
		out = append(out, scenario{name: fmt.Sprintf("deadline@t=%dns", t), plan: simrt.Plan{CancelStep: -1, Deadline: t, Latency: true}, kind: "deadline"})
	}
	return out
}
