// Package simfilepath replaces path/filepath for the code under test: the pure
// functions are the real ones, the functions that consult the process or the
// filesystem (Abs, EvalSymlinks, WalkDir, Glob) go to the simulated disk.
package simfilepath

import (
	"io/fs"
	"path/filepath"
	"sort"
	"strings"

	simos "verif/rt/simos"
)

const (
	Separator     = '/'
	ListSeparator = ':'
)

var (
	ErrBadPattern = filepath.ErrBadPattern
	SkipDir       = fs.SkipDir
	SkipAll       = fs.SkipAll
)

type WalkFunc = filepath.WalkFunc

func Join(elem ...string) string               { return filepath.Join(elem...) }
func Dir(p string) string                      { return filepath.Dir(p) }
func Base(p string) string                     { return filepath.Base(p) }
func Clean(p string) string                    { return filepath.Clean(p) }
func Ext(p string) string                      { return filepath.Ext(p) }
func IsAbs(p string) bool                      { return filepath.IsAbs(p) }
func IsLocal(p string) bool                    { return filepath.IsLocal(p) }
func Rel(base, targ string) (string, error)    { return filepath.Rel(base, targ) }
func Split(p string) (string, string)          { return filepath.Split(p) }
func SplitList(p string) []string              { return filepath.SplitList(p) }
func ToSlash(p string) string                  { return filepath.ToSlash(p) }
func FromSlash(p string) string                { return filepath.FromSlash(p) }
func VolumeName(p string) string               { return "" }
func Match(pattern, name string) (bool, error) { return filepath.Match(pattern, name) }
func Localize(p string) (string, error)        { return filepath.Localize(p) }

// Abs resolves against the simulated working directory.
func Abs(p string) (string, error) {
	if filepath.IsAbs(p) {
		return filepath.Clean(p), nil
	}
	wd, err := simos.Getwd()
	if err != nil {
		return "", err
	}
	return filepath.Join(wd, p), nil
}

func EvalSymlinks(p string) (string, error) {
	// resolve component by component on the simulated disk
	a, err := Abs(p)
	if err != nil {
		return "", err
	}
	comps := strings.Split(strings.TrimPrefix(a, "/"), "/")
	cur := "/"
	for depth := 0; len(comps) > 0; {
		c := comps[0]
		comps = comps[1:]
		if c == "" {
			continue
		}
		next := filepath.Join(cur, c)
		fi, err := simos.Lstat(next)
		if err != nil {
			return "", err
		}
		if fi.Mode()&fs.ModeSymlink != 0 {
			depth++
			if depth > 40 {
				return "", &fs.PathError{Op: "EvalSymlinks", Path: p, Err: fs.ErrInvalid}
			}
			t, err := simos.Readlink(next)
			if err != nil {
				return "", err
			}
			if !filepath.IsAbs(t) {
				t = filepath.Join(cur, t)
			}
			comps = append(strings.Split(strings.TrimPrefix(filepath.Clean(t), "/"), "/"), comps...)
			cur = "/"
			continue
		}
		cur = next
	}
	return cur, nil
}

func WalkDir(root string, fn fs.WalkDirFunc) error {
	fi, err := simos.Lstat(root)
	if err != nil {
		err = fn(root, nil, err)
	} else {
		err = walkDir(root, fs.FileInfoToDirEntry(fi), fn)
	}
	if err == fs.SkipDir || err == fs.SkipAll {
		return nil
	}
	return err
}

func walkDir(p string, d fs.DirEntry, fn fs.WalkDirFunc) error {
	if err := fn(p, d, nil); err != nil || !d.IsDir() {
		if err == fs.SkipDir && d.IsDir() {
			err = nil
		}
		return err
	}
	ents, err := simos.ReadDir(p)
	if err != nil {
		err = fn(p, d, err)
		if err != nil {
			if err == fs.SkipDir && d.IsDir() {
				err = nil
			}
			return err
		}
	}
	sort.Slice(ents, func(i, j int) bool { return ents[i].Name() < ents[j].Name() })
	for _, e := range ents {
		if err := walkDir(filepath.Join(p, e.Name()), e, fn); err != nil {
			if err == fs.SkipDir {
				break
			}
			return err
		}
	}
	return nil
}

func Walk(root string, fn filepath.WalkFunc) error {
	return WalkDir(root, func(p string, d fs.DirEntry, err error) error {
		if err != nil {
			return fn(p, nil, err)
		}
		fi, ierr := d.Info()
		return fn(p, fi, ierr)
	})
}

// Glob follows path/filepath.Glob step by step (pattern check first, metacharacters in
// directory elements expanded recursively) over the simulated disk.
func Glob(pattern string) ([]string, error) { return globWithLimit(pattern, 0) }

func hasMeta(p string) bool { return strings.ContainsAny(p, `*?[\\`) }

func globWithLimit(pattern string, depth int) (matches []string, err error) {
	if depth == 10000 {
		return nil, filepath.ErrBadPattern
	}
	if _, err := filepath.Match(pattern, ""); err != nil {
		return nil, err
	}
	if !hasMeta(pattern) {
		if _, err = simos.Lstat(pattern); err != nil {
			return nil, nil
		}
		return []string{pattern}, nil
	}
	dir, file := filepath.Split(pattern)
	switch dir {
	case "":
		dir = "."
	case "/":
	default:
		dir = dir[:len(dir)-1]
	}
	if !hasMeta(dir) {
		return globDir(dir, file, nil)
	}
	if dir == pattern {
		return nil, filepath.ErrBadPattern
	}
	m, err := globWithLimit(dir, depth+1)
	if err != nil {
		return nil, err
	}
	for _, d := range m {
		matches, err = globDir(d, file, matches)
		if err != nil {
			return
		}
	}
	return
}

func globDir(dir, pattern string, matches []string) ([]string, error) {
	fi, err := simos.Stat(dir)
	if err != nil || !fi.IsDir() {
		return matches, nil
	}
	ents, err := simos.ReadDir(dir)
	if err != nil {
		return matches, nil
	}
	names := make([]string, 0, len(ents))
	for _, e := range ents {
		names = append(names, e.Name())
	}
	sort.Strings(names)
	for _, n := range names {
		ok, err := filepath.Match(pattern, n)
		if err != nil {
			return matches, err
		}
		if ok {
			matches = append(matches, filepath.Join(dir, n))
		}
	}
	return matches, nil
}
