// Package simos is a drop-in replacement for the subset of package os that
// internal/llmsetup uses, backed by an in-memory POSIX-like disk that a seeded
// simulator controls: every primitive filesystem step is numbered, logged and
// can be made to fail, be cut short, or be the instant at which the process dies.
//
// The package is copied into a scratch copy of the repository at check time and
// the "os" import of the code under test is redirected to it; nothing here ships.
package simos

import (
	"errors"
	"fmt"
	"io"
	"io/fs"
	realos "os"
	"sort"
	"strings"
	"syscall"
	"time"
)

// ---- re-exported names the code under test may use --------------------------

type FileMode = fs.FileMode
type FileInfo = fs.FileInfo
type DirEntry = fs.DirEntry
type PathError = fs.PathError

const (
	ModeDir     = fs.ModeDir
	ModeSymlink = fs.ModeSymlink
	ModePerm    = fs.ModePerm
	ModeType    = fs.ModeType

	O_RDONLY = syscall.O_RDONLY
	O_WRONLY = syscall.O_WRONLY
	O_RDWR   = syscall.O_RDWR
	O_APPEND = syscall.O_APPEND
	O_CREATE = syscall.O_CREAT
	O_EXCL   = syscall.O_EXCL
	O_SYNC   = syscall.O_SYNC
	O_TRUNC  = syscall.O_TRUNC

	PathSeparator     = '/'
	PathListSeparator = ':'
	DevNull           = "/dev/null"
)

var (
	ErrInvalid          = fs.ErrInvalid
	ErrPermission       = fs.ErrPermission
	ErrExist            = fs.ErrExist
	ErrNotExist         = fs.ErrNotExist
	ErrClosed           = fs.ErrClosed
	ErrNoDeadline       = errors.New("file type does not support deadline")
	ErrDeadlineExceeded = errors.New("i/o timeout")
)

// Stdout / Stderr are what the code under test sees as os.Stdout / os.Stderr.
var (
	Stdout io.Writer = stdStream{1}
	Stderr io.Writer = stdStream{2}
	Args             = []string{"kessoku"}
)

type stdStream struct{ fd int }

func (s stdStream) Write(b []byte) (int, error) {
	d := Cur
	if s.fd == 1 {
		d.StdoutBuf = append(d.StdoutBuf, b...)
	} else {
		d.StderrBuf = append(d.StderrBuf, b...)
	}
	return len(b), nil
}

// ---- the disk ---------------------------------------------------------------

type Kind int

const (
	KFile Kind = iota
	KDir
	KSymlink
)

type Inode struct {
	Kind     Kind
	Mode     FileMode // permission bits only
	Data     []byte
	Target   string            // symlink target
	Children map[string]*Inode // directories
	Nlink    int
	Ino      int
}

// Fault describes what happens at one numbered step.
type Fault struct {
	Step  int    `json:"step"`
	Kind  string `json:"kind"`  // crash_before | crash_after | crash_mid | fail | short
	Errno string `json:"errno"` // for fail / short
	N     int    `json:"n"`     // bytes applied for crash_mid / short
}

// Op is one entry of the op log (every primitive step, mutating or not).
type Op struct {
	Step   int    `json:"step"`
	Kind   string `json:"kind"`
	Path   string `json:"path"`
	Path2  string `json:"path2,omitempty"`
	Mutate bool   `json:"mutate"`
	Err    string `json:"err,omitempty"`
	Note   string `json:"note,omitempty"`
}

type Disk struct {
	Root      *Inode
	Cwd       string
	Home      string            // "" => UserHomeDir fails
	Env       map[string]string // the rest of the process environment (XDG_*, TMPDIR, ...)
	Uid       int               // 0 = root: permission bits never deny
	Umask     FileMode          // applied to the mode of created files and directories, as open(2)/mkdir(2) do
	Dead      bool
	Step      int
	Plan      []Fault
	Log       []Op
	StdoutBuf []byte
	StderrBuf []byte
	Rand      func(n int) int // seeded source for temp names
	TempClash bool            // buggify: first CreateTemp candidate is forced to collide
	Fired     []string        // fault kinds that actually took effect
	Planted   map[string]bool // files the simulator itself planted during the run (temp-name collisions)
	nextIno   int
	tmpSeq    int
	open      map[*File]struct{}
}

// NoLimit is the write limit meaning "apply everything". Limits -1 and -2 are symbolic
// cut points resolved against the payload: all but one byte, and half of it.
const NoLimit = -1 << 30

// Cur is the disk every package-level function operates on.
var Cur *Disk

// Crash is the panic value raised when the simulated process dies.
type Crash struct{ Step int }

func NewDisk() *Disk {
	d := &Disk{Cwd: "/", open: map[*File]struct{}{}}
	d.Root = d.newInode(KDir, 0o755)
	return d
}

func (d *Disk) newInode(k Kind, mode FileMode) *Inode {
	d.nextIno++
	n := &Inode{Kind: k, Mode: mode & fs.ModePerm, Nlink: 1, Ino: d.nextIno}
	if k == KDir {
		n.Children = map[string]*Inode{}
	}
	return n
}

// Clone makes a deep copy of the tree (open files and logs are not copied).
func (d *Disk) Clone() *Disk {
	c := &Disk{Cwd: d.Cwd, Home: d.Home, Env: d.Env, Uid: d.Uid, Umask: d.Umask, nextIno: d.nextIno, open: map[*File]struct{}{}, Rand: d.Rand, TempClash: d.TempClash}
	seen := map[*Inode]*Inode{}
	var cp func(n *Inode) *Inode
	cp = func(n *Inode) *Inode {
		if m, ok := seen[n]; ok {
			return m
		}
		m := &Inode{Kind: n.Kind, Mode: n.Mode, Target: n.Target, Nlink: n.Nlink, Ino: n.Ino}
		seen[n] = m
		if n.Data != nil {
			m.Data = append([]byte{}, n.Data...)
		}
		if n.Children != nil {
			m.Children = make(map[string]*Inode, len(n.Children))
			for k, v := range n.Children {
				m.Children[k] = cp(v)
			}
		}
		return m
	}
	c.Root = cp(d.Root)
	return c
}

// CloneAlive is Clone under the name the crash oracle reads best: the tree as the
// dead process left it, mounted by a fresh process.
func (d *Disk) CloneAlive() *Disk { return d.Clone() }

// Entry is one line of a snapshot.
type Entry struct {
	Path string
	Kind Kind
	Mode FileMode
	Data string
}

// Snapshot lists the whole tree in sorted path order.
func (d *Disk) Snapshot() []Entry {
	var out []Entry
	var walk func(p string, n *Inode)
	walk = func(p string, n *Inode) {
		e := Entry{Path: p, Kind: n.Kind, Mode: n.Mode}
		switch n.Kind {
		case KFile:
			e.Data = string(n.Data)
		case KSymlink:
			e.Data = n.Target
		}
		out = append(out, e)
		if n.Kind == KDir {
			names := make([]string, 0, len(n.Children))
			for k := range n.Children {
				names = append(names, k)
			}
			sort.Strings(names)
			for _, k := range names {
				q := p + "/" + k
				if p == "/" {
					q = "/" + k
				}
				walk(q, n.Children[k])
			}
		}
	}
	walk("/", d.Root)
	return out
}

// ---- errors -------------------------------------------------------------------

var errnoByName = map[string]syscall.Errno{
	"EIO": syscall.EIO, "ENOSPC": syscall.ENOSPC, "EACCES": syscall.EACCES, "EMFILE": syscall.EMFILE,
	"EROFS": syscall.EROFS, "EDQUOT": syscall.EDQUOT, "EINTR": syscall.EINTR, "ENOMEM": syscall.ENOMEM,
	"EPERM": syscall.EPERM, "ENOENT": syscall.ENOENT, "EEXIST": syscall.EEXIST, "ENOTDIR": syscall.ENOTDIR,
	"EISDIR": syscall.EISDIR, "ENOTEMPTY": syscall.ENOTEMPTY, "EXDEV": syscall.EXDEV, "EBUSY": syscall.EBUSY,
	"EAGAIN": syscall.EAGAIN,
}

func pathErr(op, path string, e error) error { return &fs.PathError{Op: op, Path: path, Err: e} }

type LinkError struct {
	Op  string
	Old string
	New string
	Err error
}

func (e *LinkError) Error() string { return e.Op + " " + e.Old + " " + e.New + ": " + e.Err.Error() }
func (e *LinkError) Unwrap() error { return e.Err }

func IsNotExist(err error) bool   { return underlyingIs(err, fs.ErrNotExist) }
func IsExist(err error) bool      { return underlyingIs(err, fs.ErrExist) }
func IsPermission(err error) bool { return underlyingIs(err, fs.ErrPermission) }
func IsTimeout(err error) bool    { return false }

func underlyingIs(err, target error) bool {
	// like package os: unwrap only PathError / LinkError / SyscallError, then compare
	switch e := err.(type) {
	case *fs.PathError:
		err = e.Err
	case *LinkError:
		err = e.Err
	}
	if err == target {
		return true
	}
	if en, ok := err.(syscall.Errno); ok {
		return en.Is(target)
	}
	return false
}

// ---- step machinery --------------------------------------------------------------

// step numbers one primitive operation, logs it and applies the fault plan.
// It returns (apply, n, err): apply=false means the primitive must not change
// anything and must return err; n>=0 limits a write to n bytes (then err, or death).
// crashAfter tells the caller to die once the primitive has been applied.
func (d *Disk) step(kind, path, path2 string, mutate bool) (apply bool, limit int, err error, crashAfter bool) {
	if d.Dead {
		// a dead process performs no system calls; deferred code that still runs
		// while the crash panic unwinds must not touch the disk.
		return false, NoLimit, syscall.EIO, false
	}
	d.Step++
	op := Op{Step: d.Step, Kind: kind, Path: path, Path2: path2, Mutate: mutate}
	for _, f := range d.Plan {
		if f.Step != d.Step {
			continue
		}
		switch f.Kind {
		case "crash_before":
			op.Note = "crash_before"
			d.Log = append(d.Log, op)
			d.Fired = append(d.Fired, "crash_before")
			d.die()
		case "crash_after":
			op.Note = "crash_after"
			d.Log = append(d.Log, op)
			d.Fired = append(d.Fired, "crash_after")
			return true, NoLimit, nil, true
		case "crash_mid":
			op.Note = fmt.Sprintf("crash_mid(%d)", f.N)
			d.Log = append(d.Log, op)
			d.Fired = append(d.Fired, "crash_mid")
			return true, f.N, nil, true
		case "fail":
			e := errnoByName[f.Errno]
			op.Err = f.Errno
			op.Note = "injected"
			d.Log = append(d.Log, op)
			d.Fired = append(d.Fired, "fail:"+f.Errno)
			return false, NoLimit, e, false
		case "short":
			e := errnoByName[f.Errno]
			op.Err = f.Errno
			op.Note = fmt.Sprintf("short(%d)", f.N)
			d.Log = append(d.Log, op)
			d.Fired = append(d.Fired, "short:"+f.Errno)
			return true, f.N, e, false
		}
	}
	d.Log = append(d.Log, op)
	return true, NoLimit, nil, false
}

func (d *Disk) die() {
	d.Dead = true
	panic(Crash{Step: d.Step})
}

func (d *Disk) noteErr(err error) {
	if err != nil && len(d.Log) > 0 && d.Log[len(d.Log)-1].Err == "" {
		d.Log[len(d.Log)-1].Err = err.Error()
	}
}

// ---- path resolution ----------------------------------------------------------------

func (d *Disk) abs(p string) string {
	if !strings.HasPrefix(p, "/") {
		p = d.Cwd + "/" + p
	}
	return Clean(p)
}

// Clean is path.Clean for slash paths (kept local so that simfilepath can share it).
func Clean(p string) string {
	if p == "" {
		return "."
	}
	rooted := p[0] == '/'
	parts := strings.Split(p, "/")
	var out []string
	for _, s := range parts {
		switch s {
		case "", ".":
		case "..":
			if len(out) > 0 && out[len(out)-1] != ".." {
				out = out[:len(out)-1]
			} else if !rooted {
				out = append(out, "..")
			}
		default:
			out = append(out, s)
		}
	}
	r := strings.Join(out, "/")
	if rooted {
		return "/" + r
	}
	if r == "" {
		return "."
	}
	return r
}

func (d *Disk) canSearch(n *Inode) bool { return d.Uid == 0 || n.Mode&0o100 != 0 }
func (d *Disk) canWrite(n *Inode) bool  { return d.Uid == 0 || n.Mode&0o200 != 0 }
func (d *Disk) canRead(n *Inode) bool   { return d.Uid == 0 || n.Mode&0o400 != 0 }

// walk resolves an absolute clean path. It returns the parent directory, the final
// name and the inode (nil if the last component does not exist).
func (d *Disk) walk(p string, followLast bool, depth int) (parent *Inode, name string, n *Inode, err error) {
	if depth > 40 {
		return nil, "", nil, syscall.ELOOP
	}
	p = d.abs(p)
	if p == "/" {
		return nil, "", d.Root, nil
	}
	comps := strings.Split(p[1:], "/")
	cur := d.Root
	curPath := ""
	for i, c := range comps {
		if cur.Kind != KDir {
			return nil, "", nil, syscall.ENOTDIR
		}
		if !d.canSearch(cur) {
			return nil, "", nil, syscall.EACCES
		}
		child := cur.Children[c]
		last := i == len(comps)-1
		if child == nil {
			if last {
				return cur, c, nil, nil
			}
			return nil, "", nil, syscall.ENOENT
		}
		if child.Kind == KSymlink && (!last || followLast) {
			t := child.Target
			if !strings.HasPrefix(t, "/") {
				t = curPath + "/" + t
			}
			rest := strings.Join(comps[i+1:], "/")
			if rest != "" {
				t = t + "/" + rest
			}
			return d.walk(Clean(t), followLast, depth+1)
		}
		if last {
			return cur, c, child, nil
		}
		cur = child
		curPath = curPath + "/" + c
	}
	return nil, "", nil, syscall.ENOENT
}

// ---- FileInfo -----------------------------------------------------------------------

type fileInfo struct {
	name string
	n    *Inode
	size int64
	mode FileMode
}

func (fi fileInfo) Name() string       { return fi.name }
func (fi fileInfo) Size() int64        { return fi.size }
func (fi fileInfo) Mode() FileMode     { return fi.mode }
func (fi fileInfo) ModTime() time.Time { return time.Time{} }
func (fi fileInfo) IsDir() bool        { return fi.mode.IsDir() }
func (fi fileInfo) Sys() any           { return nil }
func (fi fileInfo) Type() FileMode     { return fi.mode.Type() }
func (fi fileInfo) Info() (FileInfo, error) {
	return fi, nil
}

func infoOf(name string, n *Inode) fileInfo {
	m := n.Mode
	switch n.Kind {
	case KDir:
		m |= fs.ModeDir
	case KSymlink:
		m |= fs.ModeSymlink
	}
	return fileInfo{name: name, n: n, size: int64(len(n.Data)), mode: m}
}

func base(p string) string {
	p = strings.TrimRight(p, "/")
	if i := strings.LastIndex(p, "/"); i >= 0 {
		p = p[i+1:]
	}
	if p == "" {
		return "/"
	}
	return p
}

// ---- package-level API ----------------------------------------------------------------

func Getwd() (string, error) {
	d := Cur
	if ok, _, err, _ := d.step("getwd", "", "", false); !ok {
		return "", pathErr("getwd", ".", err)
	}
	return d.Cwd, nil
}

func Chdir(dir string) error {
	d := Cur
	_, _, n, err := d.walk(dir, true, 0)
	if err != nil {
		return pathErr("chdir", dir, err)
	}
	if n == nil {
		return pathErr("chdir", dir, syscall.ENOENT)
	}
	if n.Kind != KDir {
		return pathErr("chdir", dir, syscall.ENOTDIR)
	}
	d.Cwd = d.abs(dir)
	return nil
}

func UserHomeDir() (string, error) {
	d := Cur
	if d.Home == "" {
		return "", errors.New("$HOME is not defined")
	}
	return d.Home, nil
}

func Getenv(k string) string {
	v, _ := LookupEnv(k)
	return v
}

func LookupEnv(k string) (string, bool) {
	if k == "HOME" {
		return Cur.Home, Cur.Home != ""
	}
	v, ok := Cur.Env[k]
	return v, ok
}

func Environ() []string {
	var out []string
	if Cur.Home != "" {
		out = append(out, "HOME="+Cur.Home)
	}
	keys := make([]string, 0, len(Cur.Env))
	for k := range Cur.Env {
		keys = append(keys, k)
	}
	sort.Strings(keys)
	for _, k := range keys {
		out = append(out, k+"="+Cur.Env[k])
	}
	return out
}

func ExpandEnv(s string) string                     { return realos.Expand(s, Getenv) }
func Expand(s string, m func(string) string) string { return realos.Expand(s, m) }

// UserConfigDir and UserCacheDir follow package os on Linux: $XDG_*_HOME when set (it must be
// absolute), else $HOME/.config or $HOME/.cache.
func UserConfigDir() (string, error) { return xdgDir("XDG_CONFIG_HOME", "/.config") }
func UserCacheDir() (string, error)  { return xdgDir("XDG_CACHE_HOME", "/.cache") }

func xdgDir(key, fallback string) (string, error) {
	dir := Getenv(key)
	if dir == "" {
		dir = Getenv("HOME")
		if dir == "" {
			return "", errors.New("neither $" + key + " nor $HOME are defined")
		}
		return dir + fallback, nil
	}
	if !strings.HasPrefix(dir, "/") {
		return "", errors.New("path in $" + key + " is relative")
	}
	return dir, nil
}

func Getuid() int  { return Cur.Uid }
func Geteuid() int { return Cur.Uid }
func Getpid() int  { return 4242 }
func TempDir() string {
	if v := Getenv("TMPDIR"); v != "" {
		return v
	}
	return "/tmp"
}

func Exit(code int) { panic(fmt.Sprintf("simos: os.Exit(%d) called", code)) }

func Stat(name string) (FileInfo, error)  { return Cur.stat("stat", name, true) }
func Lstat(name string) (FileInfo, error) { return Cur.stat("lstat", name, false) }

func (d *Disk) stat(op, name string, follow bool) (FileInfo, error) {
	if ok, _, err, _ := d.step(op, d.abs(name), "", false); !ok {
		return nil, pathErr(op, name, err)
	}
	_, _, n, err := d.walk(name, follow, 0)
	if err == nil && n == nil {
		err = syscall.ENOENT
	}
	if err != nil {
		d.noteErr(err)
		return nil, pathErr(op, name, err)
	}
	return infoOf(base(name), n), nil
}

func Mkdir(name string, perm FileMode) error {
	d := Cur
	ok, _, ferr, crashAfter := d.step("mkdir", d.abs(name), "", true)
	if !ok {
		return pathErr("mkdir", name, ferr)
	}
	err := d.mkdir(name, perm)
	if crashAfter {
		d.die()
	}
	if err != nil {
		d.noteErr(err)
		return pathErr("mkdir", name, err)
	}
	return nil
}

func (d *Disk) mkdir(name string, perm FileMode) error {
	parent, nm, n, err := d.walk(name, false, 0)
	if err != nil {
		return err
	}
	if n != nil {
		return syscall.EEXIST
	}
	if !d.canWrite(parent) || !d.canSearch(parent) {
		return syscall.EACCES
	}
	parent.Children[nm] = d.newInode(KDir, perm&^d.Umask)
	return nil
}

// MkdirAll follows the algorithm of os.MkdirAll: stat fast path, recurse on the
// parent, mkdir, and tolerate a concurrent creation.
func MkdirAll(path string, perm FileMode) error {
	d := Cur
	fi, err := d.stat("stat", path, true)
	if err == nil {
		if fi.IsDir() {
			return nil
		}
		return pathErr("mkdir", path, syscall.ENOTDIR)
	}
	p := d.abs(path)
	if p != "/" {
		par := p[:strings.LastIndex(p, "/")]
		if par == "" {
			par = "/"
		}
		if par != p {
			if err := MkdirAll(par, perm); err != nil {
				return err
			}
		}
	}
	err = Mkdir(path, perm)
	if err != nil {
		fi, err1 := d.stat("lstat", path, false)
		if err1 == nil && fi.IsDir() {
			return nil
		}
		return err
	}
	return nil
}

func Remove(name string) error {
	d := Cur
	ok, _, ferr, crashAfter := d.step("unlink", d.abs(name), "", true)
	if !ok {
		return pathErr("remove", name, ferr)
	}
	err := d.remove(name)
	if crashAfter {
		d.die()
	}
	if err != nil {
		d.noteErr(err)
		return pathErr("remove", name, err)
	}
	return nil
}

func (d *Disk) remove(name string) error {
	parent, nm, n, err := d.walk(name, false, 0)
	if err != nil {
		return err
	}
	if n == nil {
		return syscall.ENOENT
	}
	if parent == nil {
		return syscall.EBUSY
	}
	if !d.canWrite(parent) || !d.canSearch(parent) {
		return syscall.EACCES
	}
	if n.Kind == KDir && len(n.Children) > 0 {
		return syscall.ENOTEMPTY
	}
	delete(parent.Children, nm)
	n.Nlink--
	return nil
}

func RemoveAll(path string) error {
	d := Cur
	_, _, n, err := d.walk(path, false, 0)
	if err != nil || n == nil {
		return nil
	}
	if n.Kind == KDir {
		names := make([]string, 0, len(n.Children))
		for k := range n.Children {
			names = append(names, k)
		}
		sort.Strings(names)
		for _, k := range names {
			if err := RemoveAll(d.abs(path) + "/" + k); err != nil {
				return err
			}
		}
	}
	return Remove(path)
}

func Rename(oldpath, newpath string) error {
	d := Cur
	ok, _, ferr, crashAfter := d.step("rename", d.abs(oldpath), d.abs(newpath), true)
	if !ok {
		return &LinkError{"rename", oldpath, newpath, ferr}
	}
	err := d.rename(oldpath, newpath)
	if crashAfter {
		d.die()
	}
	if err != nil {
		d.noteErr(err)
		return &LinkError{"rename", oldpath, newpath, err}
	}
	return nil
}

func (d *Disk) rename(oldpath, newpath string) error {
	op, on, o, err := d.walk(oldpath, false, 0)
	if err != nil {
		return err
	}
	if o == nil {
		return syscall.ENOENT
	}
	np, nn, n, err := d.walk(newpath, false, 0)
	if err != nil {
		return err
	}
	if op == nil || np == nil {
		return syscall.EBUSY
	}
	if !d.canWrite(op) || !d.canSearch(op) || !d.canWrite(np) || !d.canSearch(np) {
		return syscall.EACCES
	}
	if n != nil {
		if n == o {
			return nil
		}
		switch {
		case o.Kind != KDir && n.Kind == KDir:
			return syscall.EISDIR
		case o.Kind == KDir && n.Kind != KDir:
			return syscall.ENOTDIR
		case o.Kind == KDir && len(n.Children) > 0:
			return syscall.ENOTEMPTY
		}
		n.Nlink--
	}
	delete(op.Children, on)
	np.Children[nn] = o
	return nil
}

func Chmod(name string, mode FileMode) error {
	d := Cur
	ok, _, ferr, crashAfter := d.step("chmod", d.abs(name), "", true)
	if !ok {
		return pathErr("chmod", name, ferr)
	}
	_, _, n, err := d.walk(name, true, 0)
	if err == nil && n == nil {
		err = syscall.ENOENT
	}
	if err == nil {
		n.Mode = mode & fs.ModePerm
	}
	if crashAfter {
		d.die()
	}
	if err != nil {
		d.noteErr(err)
		return pathErr("chmod", name, err)
	}
	return nil
}

func Chown(name string, uid, gid int) error     { return nil }
func Chtimes(name string, a, m time.Time) error { return nil }

func Symlink(oldname, newname string) error {
	d := Cur
	ok, _, ferr, crashAfter := d.step("symlink", d.abs(newname), oldname, true)
	if !ok {
		return &LinkError{"symlink", oldname, newname, ferr}
	}
	parent, nm, n, err := d.walk(newname, false, 0)
	if err == nil && n != nil {
		err = syscall.EEXIST
	}
	if err == nil && (!d.canWrite(parent) || !d.canSearch(parent)) {
		err = syscall.EACCES
	}
	if err == nil {
		s := d.newInode(KSymlink, 0o777)
		s.Target = oldname
		parent.Children[nm] = s
	}
	if crashAfter {
		d.die()
	}
	if err != nil {
		d.noteErr(err)
		return &LinkError{"symlink", oldname, newname, err}
	}
	return nil
}

func Readlink(name string) (string, error) {
	d := Cur
	_, _, n, err := d.walk(name, false, 0)
	if err == nil && n == nil {
		err = syscall.ENOENT
	}
	if err == nil && n.Kind != KSymlink {
		err = syscall.EINVAL
	}
	if err != nil {
		return "", pathErr("readlink", name, err)
	}
	return n.Target, nil
}

func Link(oldname, newname string) error {
	d := Cur
	ok, _, ferr, crashAfter := d.step("link", d.abs(oldname), d.abs(newname), true)
	if !ok {
		return &LinkError{"link", oldname, newname, ferr}
	}
	_, _, o, err := d.walk(oldname, false, 0)
	if err == nil && o == nil {
		err = syscall.ENOENT
	}
	var parent *Inode
	var nm string
	if err == nil {
		var n *Inode
		parent, nm, n, err = d.walk(newname, false, 0)
		if err == nil && n != nil {
			err = syscall.EEXIST
		}
	}
	if err == nil && (!d.canWrite(parent) || !d.canSearch(parent)) {
		err = syscall.EACCES
	}
	if err == nil {
		parent.Children[nm] = o
		o.Nlink++
	}
	if crashAfter {
		d.die()
	}
	if err != nil {
		d.noteErr(err)
		return &LinkError{"link", oldname, newname, err}
	}
	return nil
}

func Truncate(name string, size int64) error {
	d := Cur
	ok, _, ferr, crashAfter := d.step("truncate", d.abs(name), "", true)
	if !ok {
		return pathErr("truncate", name, ferr)
	}
	_, _, n, err := d.walk(name, true, 0)
	if err == nil && n == nil {
		err = syscall.ENOENT
	}
	if err == nil && n.Kind == KDir {
		err = syscall.EISDIR
	}
	if err == nil && !d.canWrite(n) {
		err = syscall.EACCES
	}
	if err == nil {
		n.Data = resize(n.Data, size)
	}
	if crashAfter {
		d.die()
	}
	if err != nil {
		d.noteErr(err)
		return pathErr("truncate", name, err)
	}
	return nil
}

func resize(b []byte, size int64) []byte {
	if int64(len(b)) >= size {
		return b[:size]
	}
	return append(b, make([]byte, size-int64(len(b)))...)
}

func ReadDir(name string) ([]DirEntry, error) {
	d := Cur
	if ok, _, err, _ := d.step("readdir", d.abs(name), "", false); !ok {
		return nil, pathErr("open", name, err)
	}
	_, _, n, err := d.walk(name, true, 0)
	if err == nil && n == nil {
		err = syscall.ENOENT
	}
	if err == nil && n.Kind != KDir {
		err = syscall.ENOTDIR
	}
	if err == nil && !d.canRead(n) {
		err = syscall.EACCES
	}
	if err != nil {
		d.noteErr(err)
		return nil, pathErr("open", name, err)
	}
	names := make([]string, 0, len(n.Children))
	for k := range n.Children {
		names = append(names, k)
	}
	sort.Strings(names)
	out := make([]DirEntry, 0, len(names))
	for _, k := range names {
		out = append(out, infoOf(k, n.Children[k]))
	}
	return out, nil
}

func ReadFile(name string) ([]byte, error) {
	f, err := Open(name)
	if err != nil {
		return nil, err
	}
	defer f.Close()
	return io.ReadAll(f)
}

func WriteFile(name string, data []byte, perm FileMode) error {
	f, err := OpenFile(name, O_WRONLY|O_CREATE|O_TRUNC, perm)
	if err != nil {
		return err
	}
	_, err = f.Write(data)
	if err1 := f.Close(); err1 != nil && err == nil {
		err = err1
	}
	return err
}

func Open(name string) (*File, error)   { return OpenFile(name, O_RDONLY, 0) }
func Create(name string) (*File, error) { return OpenFile(name, O_RDWR|O_CREATE|O_TRUNC, 0o666) }

func OpenFile(name string, flag int, perm FileMode) (*File, error) {
	d := Cur
	mut := flag&(O_CREATE|O_TRUNC) != 0
	kind := "open"
	switch {
	case flag&O_CREATE != 0 && flag&O_EXCL != 0:
		kind = "open_excl"
	case flag&O_CREATE != 0:
		kind = "open_creat"
	case flag&O_TRUNC != 0:
		kind = "open_trunc"
	}
	ok, _, ferr, crashAfter := d.step(kind, d.abs(name), "", mut)
	if !ok {
		return nil, pathErr("open", name, ferr)
	}
	f, err := d.open_(name, flag, perm)
	if crashAfter {
		d.die()
	}
	if err != nil {
		d.noteErr(err)
		return nil, pathErr("open", name, err)
	}
	return f, nil
}

func (d *Disk) open_(name string, flag int, perm FileMode) (*File, error) {
	parent, nm, n, err := d.walk(name, flag&O_EXCL == 0, 0)
	if err != nil {
		return nil, err
	}
	acc := flag & (O_RDONLY | O_WRONLY | O_RDWR)
	wantW := acc == O_WRONLY || acc == O_RDWR
	wantR := acc == O_RDONLY || acc == O_RDWR
	if n == nil {
		if flag&O_CREATE == 0 {
			return nil, syscall.ENOENT
		}
		if parent == nil {
			return nil, syscall.EISDIR
		}
		if !d.canWrite(parent) || !d.canSearch(parent) {
			return nil, syscall.EACCES
		}
		n = d.newInode(KFile, perm&^d.Umask)
		n.Data = []byte{}
		parent.Children[nm] = n
	} else {
		if flag&O_CREATE != 0 && flag&O_EXCL != 0 {
			return nil, syscall.EEXIST
		}
		if n.Kind == KDir && wantW {
			return nil, syscall.EISDIR
		}
		if wantW && !d.canWrite(n) {
			return nil, syscall.EACCES
		}
		if wantR && !d.canRead(n) {
			return nil, syscall.EACCES
		}
		if flag&O_TRUNC != 0 && n.Kind == KFile {
			n.Data = []byte{}
		}
	}
	f := &File{d: d, n: n, name: name, r: wantR, w: wantW, app: flag&O_APPEND != 0}
	d.open[f] = struct{}{}
	return f, nil
}

func MkdirTemp(dir, pattern string) (string, error) {
	d := Cur
	if dir == "" {
		dir = TempDir()
	}
	prefix, suffix := splitPattern(pattern)
	for try := 0; try < 10000; try++ {
		name := dir + "/" + prefix + d.tempName() + suffix
		err := Mkdir(name, 0o700)
		if err == nil {
			return name, nil
		}
		if IsExist(err) {
			continue
		}
		return "", err
	}
	return "", pathErr("mkdirtemp", dir+"/"+prefix+"*"+suffix, fs.ErrExist)
}

func CreateTemp(dir, pattern string) (*File, error) {
	d := Cur
	if dir == "" {
		dir = TempDir()
	}
	if strings.Contains(pattern, "/") {
		return nil, pathErr("createtemp", pattern, errors.New("pattern contains path separator"))
	}
	prefix, suffix := splitPattern(pattern)
	for try := 0; try < 10000; try++ {
		name := strings.TrimRight(dir, "/") + "/" + prefix + d.tempName() + suffix
		if dir == "/" {
			name = "/" + prefix + d.tempName() + suffix
		}
		if try == 0 && d.TempClash {
			// buggify: make the first candidate collide with a leftover of an earlier crash
			if parent, nm, n, err := d.walk(name, false, 0); err == nil && n == nil && parent != nil {
				left := d.newInode(KFile, 0o600)
				left.Data = []byte("leftover")
				parent.Children[nm] = left
				if d.Planted == nil {
					d.Planted = map[string]bool{}
				}
				d.Planted[d.abs(name)] = true
				d.Planted[base(name)] = true // by leaf name too: the directory may be reached through a symlink
				d.Fired = append(d.Fired, "temp_name_collision")
			}
		}
		f, err := OpenFile(name, O_RDWR|O_CREATE|O_EXCL, 0o600)
		if err == nil {
			return f, nil
		}
		if IsExist(err) {
			continue
		}
		return nil, err
	}
	return nil, pathErr("createtemp", dir+"/"+prefix+"*"+suffix, fs.ErrExist)
}

func splitPattern(p string) (string, string) {
	if i := strings.LastIndex(p, "*"); i >= 0 {
		return p[:i], p[i+1:]
	}
	return p, ""
}

func (d *Disk) tempName() string {
	d.tmpSeq++
	r := 0
	if d.Rand != nil {
		r = d.Rand(1000000000)
	}
	return fmt.Sprintf("%09d%d", r, d.tmpSeq)
}

// ---- File ---------------------------------------------------------------------------------

type File struct {
	d      *Disk
	n      *Inode
	name   string
	off    int64
	r, w   bool
	app    bool
	closed bool
}

func (f *File) Name() string { return f.name }
func (f *File) Fd() uintptr  { return 3 }

func (f *File) check(op string) error {
	if f == nil {
		return fs.ErrInvalid
	}
	if f.closed {
		return pathErr(op, f.name, fs.ErrClosed)
	}
	return nil
}

func (f *File) Write(b []byte) (int, error) {
	if err := f.check("write"); err != nil {
		return 0, err
	}
	d := f.d
	ok, limit, ferr, crashAfter := d.step("write", d.abs(f.name), "", true)
	if !ok {
		return 0, pathErr("write", f.name, ferr)
	}
	if !f.w {
		d.noteErr(syscall.EBADF)
		return 0, pathErr("write", f.name, syscall.EBADF)
	}
	n := len(b)
	switch {
	case limit == -1:
		limit = len(b) - 1
	case limit == -2:
		limit = len(b) / 2
	}
	if limit != NoLimit {
		if limit < 0 {
			limit = 0
		}
		if limit < n {
			n = limit
		}
		d.Log[len(d.Log)-1].Note += fmt.Sprintf(" applied=%d/%d", n, len(b))
	}
	if f.app {
		f.off = int64(len(f.n.Data))
	}
	end := f.off + int64(n)
	if int64(len(f.n.Data)) < end {
		f.n.Data = resize(f.n.Data, end)
	}
	copy(f.n.Data[f.off:end], b[:n])
	f.off = end
	if crashAfter {
		d.die()
	}
	if ferr != nil {
		return n, pathErr("write", f.name, ferr)
	}
	if n < len(b) {
		return n, io.ErrShortWrite
	}
	return n, nil
}

func (f *File) WriteString(s string) (int, error) { return f.Write([]byte(s)) }

func (f *File) WriteAt(b []byte, off int64) (int, error) {
	if err := f.check("write"); err != nil {
		return 0, err
	}
	save := f.off
	f.off = off
	n, err := f.Write(b)
	f.off = save
	return n, err
}

func (f *File) ReadFrom(r io.Reader) (int64, error) {
	b, err := io.ReadAll(r)
	if err != nil {
		return 0, err
	}
	n, err := f.Write(b)
	return int64(n), err
}

func (f *File) Read(b []byte) (int, error) {
	if err := f.check("read"); err != nil {
		return 0, err
	}
	if f.n.Kind == KDir {
		return 0, pathErr("read", f.name, syscall.EISDIR)
	}
	if f.off >= int64(len(f.n.Data)) {
		return 0, io.EOF
	}
	n := copy(b, f.n.Data[f.off:])
	f.off += int64(n)
	return n, nil
}

func (f *File) Seek(offset int64, whence int) (int64, error) {
	if err := f.check("seek"); err != nil {
		return 0, err
	}
	switch whence {
	case io.SeekStart:
		f.off = offset
	case io.SeekCurrent:
		f.off += offset
	case io.SeekEnd:
		f.off = int64(len(f.n.Data)) + offset
	}
	return f.off, nil
}

func (f *File) Sync() error {
	if err := f.check("sync"); err != nil {
		return err
	}
	d := f.d
	ok, _, ferr, crashAfter := d.step("fsync", d.abs(f.name), "", false)
	if !ok {
		return pathErr("sync", f.name, ferr)
	}
	if crashAfter {
		d.die()
	}
	return nil
}

func (f *File) Close() error {
	if f == nil {
		return fs.ErrInvalid
	}
	if f.closed {
		return pathErr("close", f.name, fs.ErrClosed)
	}
	d := f.d
	ok, _, ferr, crashAfter := d.step("close", d.abs(f.name), "", false)
	if d.Dead && !ok {
		return pathErr("close", f.name, ferr)
	}
	// like the kernel: the descriptor is released even when close reports an error
	f.closed = true
	delete(d.open, f)
	if !ok {
		return pathErr("close", f.name, ferr)
	}
	if crashAfter {
		d.die()
	}
	return nil
}

func (f *File) Chmod(mode FileMode) error {
	if err := f.check("chmod"); err != nil {
		return err
	}
	d := f.d
	ok, _, ferr, crashAfter := d.step("fchmod", d.abs(f.name), "", true)
	if !ok {
		return pathErr("chmod", f.name, ferr)
	}
	f.n.Mode = mode & fs.ModePerm
	if crashAfter {
		d.die()
	}
	return nil
}

func (f *File) Chown(uid, gid int) error { return nil }

func (f *File) Stat() (FileInfo, error) {
	if err := f.check("stat"); err != nil {
		return nil, err
	}
	return infoOf(base(f.name), f.n), nil
}

func (f *File) Truncate(size int64) error {
	if err := f.check("truncate"); err != nil {
		return err
	}
	d := f.d
	ok, _, ferr, crashAfter := d.step("ftruncate", d.abs(f.name), "", true)
	if !ok {
		return pathErr("truncate", f.name, ferr)
	}
	f.n.Data = resize(f.n.Data, size)
	if crashAfter {
		d.die()
	}
	return nil
}

func (f *File) ReadDir(n int) ([]DirEntry, error) { return ReadDir(f.name) }

// OpenFiles reports how many descriptors the code under test still holds.
func (d *Disk) OpenFiles() int { return len(d.open) }

// DirFS is not simulated; the code under test reads its payload from embed.FS.
