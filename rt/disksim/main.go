//go:build verifscratch

// Command disksim runs the real internal/llmsetup code (imports of os and
// path/filepath redirected to the simulated disk) under a seeded fault plan.
// It is compiled inside a scratch copy of the repository module by vcheck.
package main

import (
	"encoding/json"
	"flag"
	"fmt"
	"hash/fnv"
	"io/fs"
	"os"
	"path/filepath"
	"reflect"
	"regexp"
	"sort"
	"strings"
	"time"

	"github.com/mazrean/kessoku/internal/llmsetup"
	simos "github.com/mazrean/kessoku/internal/verifsim/simos"
)

// ---------------------------------------------------------------- PRNG (splitmix64)

type rng struct{ s uint64 }

func newRng(parts ...uint64) *rng {
	r := &rng{s: 0x9e3779b97f4a7c15}
	for _, p := range parts {
		r.s ^= p + 0x9e3779b97f4a7c15 + (r.s << 6) + (r.s >> 2)
		r.next()
	}
	return r
}
func (r *rng) next() uint64 {
	r.s += 0x9e3779b97f4a7c15
	z := r.s
	z = (z ^ (z >> 30)) * 0xbf58476d1ce4e5b9
	z = (z ^ (z >> 27)) * 0x94d049bb133111eb
	return z ^ (z >> 31)
}
func (r *rng) intn(n int) int {
	if n <= 0 {
		return 0
	}
	return int(r.next() % uint64(n))
}
func (r *rng) chance(num, den int) bool { return r.intn(den) < num }
func pick[T any](r *rng, xs []T) T      { return xs[r.intn(len(xs))] }

// ---------------------------------------------------------------- documentation model

type docAgent struct {
	Display string `json:"display"`
	CLI     string `json:"cli"`
	Project string `json:"project"`
	User    string `json:"user"`
}

var (
	reSupported = regexp.MustCompile("([A-Za-z][A-Za-z0-9 ]*?)\\(`([a-z0-9-]+)`\\)")
	rePathLine  = regexp.MustCompile("^- \\*\\*(.+?):\\*\\* `([^`]+)` \\(project\\) or `([^`]+)` \\(user\\)")
)

// parseReadme reads the "Supported agents" line and the "Default installation paths" list.
func parseReadme(path string) ([]docAgent, error) {
	b, err := os.ReadFile(path)
	if err != nil {
		return nil, err
	}
	var agents []docAgent
	byDisplay := map[string]int{}
	lines := strings.Split(string(b), "\n")
	inPaths := false
	for _, ln := range lines {
		if strings.HasPrefix(ln, "**Supported agents:**") {
			for _, m := range reSupported.FindAllStringSubmatch(ln, -1) {
				d := strings.TrimSpace(strings.TrimLeft(m[1], ", "))
				byDisplay[d] = len(agents)
				agents = append(agents, docAgent{Display: d, CLI: m[2]})
			}
		}
		if strings.HasPrefix(ln, "**Default installation paths:**") {
			inPaths = true
			continue
		}
		if inPaths {
			if m := rePathLine.FindStringSubmatch(ln); m != nil {
				i, ok := byDisplay[m[1]]
				if !ok {
					return nil, fmt.Errorf("README lists a path for %q which is not in the supported-agents line", m[1])
				}
				agents[i].Project = strings.TrimSuffix(m[2], "/")
				agents[i].User = strings.TrimSuffix(strings.TrimPrefix(m[3], "~/"), "/")
			} else if strings.TrimSpace(ln) != "" && !strings.HasPrefix(ln, "- ") {
				inPaths = false
			}
		}
	}
	if len(agents) == 0 {
		return nil, fmt.Errorf("no supported agents found in %s", path)
	}
	for _, a := range agents {
		if a.Project == "" || a.User == "" {
			return nil, fmt.Errorf("README documents no installation path for %q", a.Display)
		}
	}
	return agents, nil
}

// ---------------------------------------------------------------- CLI wiring by reflection

type cliCmd struct {
	name  string
	field int
}

var reKongName = regexp.MustCompile(`name='([^']+)'`)

// cliCommands lists the non-hidden subcommands of LLMSetupCmd exactly as kong will see them.
func cliCommands() []cliCmd {
	t := reflect.TypeOf(llmsetup.LLMSetupCmd{})
	var out []cliCmd
	for i := 0; i < t.NumField(); i++ {
		tag := t.Field(i).Tag.Get("kong")
		parts := strings.Split(tag, ",")
		isCmd, hidden := false, false
		for _, p := range parts {
			if p == "cmd" {
				isCmd = true
			}
			if p == "hidden" {
				hidden = true
			}
		}
		if !isCmd || hidden {
			continue
		}
		name := strings.ToLower(t.Field(i).Name)
		if m := reKongName.FindStringSubmatch(tag); m != nil {
			name = m[1]
		}
		out = append(out, cliCmd{name: name, field: i})
	}
	return out
}

type sliceWriter struct{ b *[]byte }

func (w sliceWriter) Write(p []byte) (int, error) { *w.b = append(*w.b, p...); return len(p), nil }

// runAgent invokes the real AgentCmd.Run for the given subcommand on simos.Cur.
// crashed reports a simulated process death.
func runAgent(cli string, path string, user bool) (err error, crashed bool, found bool) {
	var root llmsetup.LLMSetupCmd
	rv := reflect.ValueOf(&root).Elem()
	for _, c := range cliCommands() {
		if c.name != cli {
			continue
		}
		found = true
		cmd := rv.Field(c.field).Addr()
		e := cmd.Elem()
		if f := e.FieldByName("Path"); f.IsValid() {
			f.SetString(path)
		}
		if f := e.FieldByName("User"); f.IsValid() {
			f.SetBool(user)
		}
		d := simos.Cur
		if f := e.FieldByName("Stdout"); f.IsValid() {
			f.Set(reflect.ValueOf(sliceWriter{&d.StdoutBuf}))
		}
		if f := e.FieldByName("Stderr"); f.IsValid() {
			f.Set(reflect.ValueOf(sliceWriter{&d.StderrBuf}))
		}
		run := cmd.MethodByName("Run")
		if !run.IsValid() {
			return fmt.Errorf("subcommand %s has no Run method", cli), false, true
		}
		func() {
			defer func() {
				if r := recover(); r != nil {
					if _, ok := r.(simos.Crash); ok {
						crashed = true
						return
					}
					panic(r)
				}
			}()
			var args []reflect.Value
			out := run.Call(args)
			if len(out) == 1 && !out[0].IsNil() {
				err = out[0].Interface().(error)
			}
		}()
		return err, crashed, true
	}
	return nil, false, false
}

// ---------------------------------------------------------------- scenarios

type preOp struct {
	Op   string `json:"op"` // mkdir | write | symlink | chmod
	Path string `json:"path"`
	Data string `json:"data,omitempty"`
	Mode uint32 `json:"mode,omitempty"`
}

type scenario struct {
	ID        string            `json:"id"`
	Agent     string            `json:"agent"` // cli name
	Path      string            `json:"path"`  // --path ("" = not given)
	User      bool              `json:"user"`
	Cwd       string            `json:"cwd"`
	Home      string            `json:"home"`
	Env       map[string]string `json:"env,omitempty"` // rest of the process environment (XDG_*, TMPDIR); the documented directories do not depend on it
	Uid       int               `json:"uid"`
	TempClash bool              `json:"temp_clash"`
	TempSeed  uint64            `json:"temp_seed"`
	BaseLink  string            `json:"base_link,omitempty"` // the base directory is a symlink to this directory
	Umask     uint32            `json:"umask,omitempty"`     // process umask during the installation
	Pre       []preOp           `json:"pre"`
	Kinds     []string          `json:"kinds"` // which pre-state families were drawn (for evidence)
	// a second installation performed before the one under test (C16 sequences)
	Before *struct {
		Agent string `json:"agent"`
		Path  string `json:"path"`
		User  bool   `json:"user"`
	} `json:"before,omitempty"`
}

type env struct {
	doc      []docAgent
	skill    map[string]string // rel path -> content (working tree on disk)
	rels     []string
	skillDir string // directory name the skill is installed under
}

func loadSkill(dir string) (map[string]string, []string, error) {
	m := map[string]string{}
	var rels []string
	err := filepath.WalkDir(dir, func(p string, d fs.DirEntry, err error) error {
		if err != nil {
			return err
		}
		if d.IsDir() {
			return nil
		}
		b, err := os.ReadFile(p)
		if err != nil {
			return err
		}
		rel, _ := filepath.Rel(dir, p)
		m[rel] = string(b)
		rels = append(rels, rel)
		return nil
	})
	sort.Strings(rels)
	return m, rels, err
}

func (e *env) agent(cli string) *docAgent {
	for i := range e.doc {
		if e.doc[i].CLI == cli {
			return &e.doc[i]
		}
	}
	return nil
}

// expectedBase is the documented rule: custom path, else $HOME/<user dir>, else cwd/<project dir>.
func (e *env) expectedBase(cli, path string, user bool, cwd, home string) (string, bool) {
	a := e.agent(cli)
	if a == nil {
		return "", false
	}
	switch {
	case path != "":
		if strings.HasPrefix(path, "/") {
			return simos.Clean(path), true
		}
		return simos.Clean(cwd + "/" + path), true
	case user:
		if home == "" {
			return "", false
		}
		return simos.Clean(home + "/" + a.User), true
	default:
		return simos.Clean(cwd + "/" + a.Project), true
	}
}

// skillPaths returns the skill directory as the user names it and where its entries really live
// (they differ when the base directory is a symlink).
func (e *env) skillPaths(s *scenario) (byName, real string, ok bool) {
	base, ok := e.expectedBase(s.Agent, s.Path, s.User, s.Cwd, s.Home)
	if !ok {
		return "", "", false
	}
	byName = simos.Clean(base + "/" + e.skillDir)
	real = byName
	if s.BaseLink != "" {
		real = simos.Clean(s.BaseLink + "/" + e.skillDir)
	}
	return byName, real, true
}

var (
	cwds = []string{"/work/proj", "/w", "/home/u/src/app", "/", "/srv/a b/c",
		"/home/u",                                          // the project IS the home directory
		"/work/app [wip", "/work/proj[12]", "/work/what?*", // glob metacharacters are ordinary characters in directory names
		"/data/プロジェクト/-leading-dash/.hidden",                                                             // unicode, a leading dash, a dot directory
		"/l/" + strings.Repeat("very-long-directory-name-", 9) + "x/" + strings.Repeat("d/", 40) + "end"} // a component of 226 bytes, 45 levels
	homes = []string{"/home/u", "/root", "/h", "/home/u/src", "/", "/home/ü ser/.h-ome"}
	modes = []uint32{0o600, 0o644, 0o444, 0o640, 0o755}
)

func genScenario(e *env, r *rng, id string, withFaultyPre bool) scenario {
	s := scenario{ID: id, Cwd: pick(r, cwds), Home: pick(r, homes), TempSeed: r.next()}
	s.Agent = pick(r, e.doc).CLI
	switch r.intn(6) {
	case 0, 1:
	case 2:
		s.User = true
	case 3:
		s.Path = pick(r, []string{"custom/skills", "./x", "a/../b", "deep/er/still/deeper", ".",
			// names the installer itself uses, as path elements of the user's choice
			e.skillDir, "x/" + e.skillDir, e.skillDir + "/" + e.skillDir, "references", "skills/SKILL.md", ".claude/skills"})
	case 4:
		s.Path = pick(r, []string{"/opt/skills", "/work/proj/.claude/skills", "/x/y/", "/home/u/.config/z",
			"/opt/" + e.skillDir, "/opt/" + e.skillDir + "/", "/srv/references",
			"/p/" + strings.Repeat("n", 255) + "/skills", "/" + strings.Repeat("a/b/", 60) + "skills", "/opt/-rf/--user", "/opt/ünï çode/skills", "/opt/me*/skills", `/opt/out\dir/skills`, "/opt/[ab/skills"})
	case 5:
		s.Path = pick(r, []string{"rel", "/abs/p"})
		s.User = true
	}
	if r.chance(1, 25) {
		s.Home = ""
	}
	if r.chance(1, 4) {
		// an environment a desktop session or a CI runner really has; README documents the
		// directories relative to the project and to the home directory only
		s.Env = map[string]string{}
		for _, kv := range [][2]string{{"XDG_CONFIG_HOME", "/xdg/config"}, {"XDG_DATA_HOME", "/xdg/data"}, {"XDG_CACHE_HOME", "/xdg/cache"}, {"TMPDIR", "/var/tmp/u"}, {"PWD", "/elsewhere"}, {"XDG_CONFIG_HOME", "relative/cfg"}} {
			if r.chance(1, 2) {
				s.Env[kv[0]] = kv[1]
			}
		}
		s.Kinds = append(s.Kinds, "environment_set")
	}
	base, ok := e.expectedBase(s.Agent, s.Path, s.User, s.Cwd, s.Home)
	s.Pre = append(s.Pre, preOp{Op: "mkdir", Path: s.Cwd, Mode: 0o755})
	if s.Home != "" {
		s.Pre = append(s.Pre, preOp{Op: "mkdir", Path: s.Home, Mode: 0o755})
	}
	if !ok {
		s.Kinds = append(s.Kinds, "no_home")
		return s
	}
	skill := simos.Clean(base + "/" + e.skillDir)
	add := func(k string) { s.Kinds = append(s.Kinds, k) }
	if base != "/" && base != s.Cwd && base != s.Home && r.chance(1, 10) {
		// e.g. ~/.claude/skills linked into a dotfiles checkout: installation goes through the link
		add("base_is_symlink_to_dir")
		s.BaseLink = "/mnt/dotfiles/skills"
		s.Pre = append(s.Pre, preOp{Op: "mkdir", Path: s.BaseLink, Mode: 0o755}, preOp{Op: "symlink", Path: base, Data: s.BaseLink})
	}
	nonce := fmt.Sprintf("%x", r.next()&0xffff)
	oldContent := func(rel string) string {
		switch r.intn(5) {
		case 4:
			return e.skill[rel] // same bytes as the new version, but possibly another mode or file type
		case 0:
			return "OLD " + rel + " " + nonce + "\n"
		case 1:
			c := e.skill[rel]
			return c[:len(c)/2] // an earlier version that happens to be a prefix of the new one
		case 2:
			return e.skill[rel] + "trailing old bytes " + nonce
		default:
			return ""
		}
	}
	switch r.intn(10) {
	case 0, 1:
		add("fresh")
	case 2:
		add("base_exists")
		s.Pre = append(s.Pre, preOp{Op: "mkdir", Path: base, Mode: 0o755})
	case 3, 4:
		add("older_install")
		for _, rel := range e.rels {
			s.Pre = append(s.Pre, preOp{Op: "write", Path: skill + "/" + rel, Data: oldContent(rel), Mode: pick(r, modes)})
		}
	case 5:
		add("partial_install")
		for _, rel := range e.rels {
			if r.chance(1, 2) {
				s.Pre = append(s.Pre, preOp{Op: "write", Path: skill + "/" + rel, Data: oldContent(rel), Mode: pick(r, modes)})
			}
		}
	case 6:
		add("same_install")
		for _, rel := range e.rels {
			m := uint32(0o644)
			if r.chance(1, 2) {
				m = pick(r, modes) // e.g. restored from a backup under another umask
			}
			s.Pre = append(s.Pre, preOp{Op: "write", Path: skill + "/" + rel, Data: e.skill[rel], Mode: m})
		}
	case 7:
		add("crash_leftovers")
		for _, rel := range e.rels {
			if r.chance(1, 2) {
				s.Pre = append(s.Pre, preOp{Op: "write", Path: skill + "/" + rel, Data: oldContent(rel), Mode: pick(r, modes)})
			}
			if r.chance(1, 2) {
				c := e.skill[rel]
				name := fmt.Sprintf("/.tmp-%d", r.intn(1e6))
				if r.chance(1, 3) {
					name = "/.tmp-" + filepath.Base(rel) // what a killed run of an installer with predictable temp names leaves
				}
				s.Pre = append(s.Pre, preOp{Op: "write", Path: filepath.Dir(skill+"/"+rel) + name, Data: c[:r.intn(len(c)+1)], Mode: pick(r, []uint32{0o600, 0o644})})
			}
		}
	case 8:
		add("half_made_dirs")
		s.Pre = append(s.Pre, preOp{Op: "mkdir", Path: skill, Mode: 0o755})
		if r.chance(1, 2) {
			s.Pre = append(s.Pre, preOp{Op: "mkdir", Path: skill + "/references", Mode: 0o755})
		}
	case 9:
		add("older_install_symlinked_file")
		for i, rel := range e.rels {
			if i == 0 {
				tgt := "target of a symlink " + nonce
				if r.chance(1, 2) {
					tgt = e.skill[rel]
				}
				s.Pre = append(s.Pre, preOp{Op: "write", Path: s.Cwd + "/elsewhere.md", Data: tgt, Mode: 0o644})
				s.Pre = append(s.Pre, preOp{Op: "symlink", Path: skill + "/" + rel, Data: s.Cwd + "/elsewhere.md"})
				continue
			}
			s.Pre = append(s.Pre, preOp{Op: "write", Path: skill + "/" + rel, Data: oldContent(rel), Mode: pick(r, modes)})
		}
	}
	// unrelated content around and inside the destination
	if r.chance(1, 2) {
		add("unrelated_files")
		cands := []string{base + "/other-skill/SKILL.md", base + "/../sibling.txt", skill + "/notes.txt", skill + "/references/EXTRA.md", s.Cwd + "/main.go", base + "/kessoku-di-old/SKILL.md", skill + ".bak"}
		for _, c := range cands {
			if r.chance(1, 2) {
				s.Pre = append(s.Pre, preOp{Op: "write", Path: simos.Clean(c), Data: "unrelated " + nonce + " " + c, Mode: pick(r, modes)})
			}
		}
	}
	// directories a pattern match over the path would confuse with the destination, holding
	// another process's in-flight temp files
	if strings.ContainsAny(skill, "*?[\\") && r.chance(2, 3) {
		sib := strings.NewReplacer("[12]", "1", "*", "-backup", "?", "x", "\\", "", "[", "").Replace(skill)
		if sib != skill {
			add("sibling_matching_a_glob_of_the_path")
			s.Pre = append(s.Pre, preOp{Op: "write", Path: sib + "/.tmp-424242", Data: "someone else's temp file " + nonce, Mode: 0o600},
				preOp{Op: "write", Path: sib + "/references/.tmp-434343", Data: "someone else's temp file " + nonce, Mode: 0o600})
		}
	}
	// other installations of the same agent further up: in an ancestor of the current directory
	// (a sub-package of a project that has the skill at its top) and in the home directory
	if r.chance(1, 4) {
		var others []string
		if anc := filepath.Dir(s.Cwd); anc != s.Cwd {
			if b, ok := e.expectedBase(s.Agent, "", false, anc, s.Home); ok {
				others = append(others, b)
			}
		}
		if b, ok := e.expectedBase(s.Agent, "", true, s.Cwd, s.Home); ok && s.Home != "" {
			others = append(others, b)
		}
		for _, ob := range others {
			osk := simos.Clean(ob + "/" + e.skillDir)
			if osk == skill || strings.HasPrefix(osk, skill+"/") || strings.HasPrefix(skill, osk+"/") || strings.HasPrefix(base+"/", simos.Clean(ob)+"/") || s.BaseLink != "" {
				continue
			}
			add("same_agent_installed_in_ancestor_or_home")
			for _, rel := range e.rels {
				s.Pre = append(s.Pre, preOp{Op: "write", Path: osk + "/" + rel, Data: "OTHER INSTALL " + rel + " " + nonce + "\n", Mode: 0o644})
			}
		}
	}
	if withFaultyPre && r.chance(1, 6) {
		// states in which even a fault-free installation cannot succeed
		switch r.intn(5) {
		case 0:
			add("dest_is_directory")
			s.Pre = append(s.Pre, preOp{Op: "mkdir", Path: skill + "/" + pick(r, e.rels) + "/sub", Mode: 0o755})
		case 1:
			add("readonly_skill_dir_nonroot")
			s.Uid = 1000
			s.Pre = append(s.Pre, preOp{Op: "mkdir", Path: skill, Mode: 0o755}, preOp{Op: "chmod", Path: skill, Mode: 0o555})
		case 2:
			add("readonly_subdir_nonroot")
			s.Uid = 1000
			s.Pre = append(s.Pre, preOp{Op: "mkdir", Path: skill + "/references", Mode: 0o755}, preOp{Op: "chmod", Path: skill + "/references", Mode: 0o555})
		case 3:
			add("skill_dir_is_file")
			s.BaseLink = ""
			s.Pre = []preOp{{Op: "mkdir", Path: s.Cwd, Mode: 0o755}, {Op: "mkdir", Path: s.Home, Mode: 0o755}, {Op: "write", Path: skill, Data: "i am a file", Mode: 0o644}}
		case 4:
			add("base_is_file")
			s.BaseLink = ""
			s.Pre = []preOp{{Op: "mkdir", Path: s.Cwd, Mode: 0o755}, {Op: "mkdir", Path: s.Home, Mode: 0o755}, {Op: "write", Path: base, Data: "i am a file", Mode: 0o644}}
		}
	} else if r.chance(1, 8) {
		add("nonroot")
		s.Uid = 1000
	}
	if r.chance(1, 5) {
		add("temp_name_collision")
		s.TempClash = true
	}
	s.Umask = 0o022
	if r.chance(1, 3) {
		s.Umask = pick(r, []uint32{0o077, 0o027, 0o002, 0o007})
		add(fmt.Sprintf("umask_%03o", s.Umask))
	}
	return s
}

// buildDisk materialises the pre-state (as root, fault-free, unlogged).
func buildDisk(s *scenario) *simos.Disk {
	d := simos.NewDisk()
	simos.Cur = d
	for _, op := range s.Pre {
		if op.Path == "" {
			continue
		}
		switch op.Op {
		case "mkdir":
			_ = simos.MkdirAll(op.Path, 0o755)
			if op.Mode != 0 {
				_ = simos.Chmod(op.Path, fs.FileMode(op.Mode))
			}
		case "write":
			_ = simos.MkdirAll(filepath.Dir(op.Path), 0o755)
			_ = simos.WriteFile(op.Path, []byte(op.Data), fs.FileMode(op.Mode))
			_ = simos.Chmod(op.Path, fs.FileMode(op.Mode))
		case "symlink":
			_ = simos.MkdirAll(filepath.Dir(op.Path), 0o755)
			_ = simos.Symlink(op.Data, op.Path)
		case "chmod":
			_ = simos.Chmod(op.Path, fs.FileMode(op.Mode))
		}
	}
	d.Step = 0
	d.Log = nil
	d.Fired = nil
	d.Cwd = s.Cwd
	d.Home = s.Home
	d.Env = s.Env
	d.Uid = s.Uid
	d.Umask = fs.FileMode(s.Umask)
	d.TempClash = s.TempClash
	tr := newRng(s.TempSeed)
	d.Rand = func(n int) int { return tr.intn(n) }
	return d
}

type runResult struct {
	err     error
	crashed bool
	found   bool
	disk    *simos.Disk
}

func execute(s *scenario, pre *simos.Disk, plan []simos.Fault) runResult {
	d := pre.Clone()
	tr := newRng(s.TempSeed)
	d.Rand = func(n int) int { return tr.intn(n) }
	d.Plan = plan
	simos.Cur = d
	err, crashed, found := runAgent(s.Agent, s.Path, s.User)
	return runResult{err: err, crashed: crashed, found: found, disk: d}
}

// ---------------------------------------------------------------- oracles

type violation struct {
	Property  string        `json:"property"`
	Signature string        `json:"signature"`
	Detail    string        `json:"detail"`
	Scenario  scenario      `json:"scenario"`
	Plan      []simos.Fault `json:"plan"`
	LogHash   string        `json:"log_hash"`
	OpLog     []simos.Op    `json:"op_log"`
}

func snapMap(d *simos.Disk) map[string]simos.Entry {
	m := map[string]simos.Entry{}
	for _, e := range d.Snapshot() {
		m[e.Path] = e
	}
	return m
}

func logHash(d *simos.Disk) string {
	h := fnv.New64a()
	for _, o := range d.Log {
		fmt.Fprintf(h, "%d|%s|%s|%s|%s|%s;", o.Step, o.Kind, o.Path, o.Path2, o.Err, o.Note)
	}
	for _, e := range d.Snapshot() {
		fmt.Fprintf(h, "%s|%d|%o|%d;", e.Path, e.Kind, e.Mode, len(e.Data))
	}
	return fmt.Sprintf("%016x", h.Sum64())
}

func isTmp(p string) bool { return strings.HasPrefix(filepath.Base(p), ".tmp-") }

// destState classifies one destination file after a run.
func destState(e *env, rel string, pre, post map[string]simos.Entry, p string) string {
	po, ok := post[p]
	if !ok {
		return "absent"
	}
	if pr, had := pre[p]; had && pr == po {
		return "old"
	}
	if po.Kind == simos.KFile && po.Data == e.skill[rel] {
		if po.Mode == 0o644 {
			return "new"
		}
		return "new_wrong_mode"
	}
	return "torn"
}

// completeTree reports what is missing for a finished installation.
func completeTree(e *env, skill string, post map[string]simos.Entry) string {
	for _, rel := range e.rels {
		po, ok := post[skill+"/"+rel]
		switch {
		case !ok:
			return "missing " + rel
		case po.Kind != simos.KFile:
			return "not a regular file " + rel
		case po.Data != e.skill[rel]:
			return "content differs " + rel
		case po.Mode != 0o644:
			return fmt.Sprintf("mode %o %s", po.Mode, rel)
		}
	}
	return ""
}

var mustReport = map[string]bool{"mkdir": true, "open_excl": true, "open_creat": true, "open_trunc": true, "write": true, "fsync": true, "close": true, "chmod": true, "fchmod": true, "rename": true, "link": true, "truncate": true, "ftruncate": true}

func stepKind(d *simos.Disk, step int) string {
	for _, o := range d.Log {
		if o.Step == step {
			return o.Kind
		}
	}
	return "?"
}

// checkC15 judges one faulty run. baseOK tells whether the fault-free run from the same pre-state succeeded.
func checkC15(e *env, s *scenario, pre *simos.Disk, preSnap map[string]simos.Entry, plan []simos.Fault, res runResult, base runResult, st *stats) (string, string) {
	baseOK := base.err == nil
	_, skill, ok := e.skillPaths(s)
	if !ok {
		return "", ""
	}
	post := snapMap(res.disk)
	f := plan[0]
	kind := stepKind(res.disk, f.Step)
	// every destination file is absent, old or completely new with final permissions
	for _, rel := range e.rels {
		p := skill + "/" + rel
		switch destState(e, rel, preSnap, post, p) {
		case "torn":
			if res.crashed {
				return "torn_destination:crash:" + kind, fmt.Sprintf("%s is neither absent, its previous content nor the new content after a crash at step %d (%s)", p, f.Step, f.Kind)
			}
			return "dest_damaged_after_error:" + kind, fmt.Sprintf("%s is neither its previous content nor the new content after %s failed", p, kind)
		case "new_wrong_mode":
			return "wrong_mode:" + map[bool]string{true: "crash", false: "error"}[res.crashed] + ":" + kind, fmt.Sprintf("%s has the new content but mode %o", p, post[p].Mode)
		case "absent":
			if _, had := preSnap[p]; had {
				return "dest_removed:" + kind, fmt.Sprintf("%s existed before and is gone", p)
			}
		}
	}
	if res.crashed {
		st.crashRuns++
		// a later successful run completes the installation
		if baseOK {
			again := execute(s, res.disk.CloneAlive(), nil)
			if again.err != nil || again.crashed {
				return "rerun_failed:" + kind, fmt.Sprintf("after a crash at step %d (%s, %s) a fault-free re-run fails: %v", f.Step, kind, f.Kind, again.err)
			}
			if miss := completeTree(e, skill, snapMap(again.disk)); miss != "" {
				return "rerun_incomplete:" + kind, fmt.Sprintf("after a crash at step %d a fault-free re-run leaves the tree incomplete: %s", f.Step, miss)
			}
			st.reruns++
		}
		return "", ""
	}
	st.errorRuns++
	if res.err == nil {
		// tolerated failure: the success must be real
		if miss := completeTree(e, skill, post); miss != "" {
			return "error_not_reported:" + kind, fmt.Sprintf("step %d (%s) failed with %s, the installer reported success but the tree is incomplete: %s", f.Step, kind, f.Errno, miss)
		}
		if mustReport[kind] {
			return "error_not_reported:" + kind, fmt.Sprintf("step %d (%s on %s) failed with %s and the installer reported success", f.Step, kind, opPath(res.disk, f.Step), f.Errno)
		}
		st.tolerated++
		return "", ""
	}
	// the previous destination of the file whose installation step failed is intact: the file is the one
	// the failing step's temporary file is (in the fault-free run) renamed to
	if tmp := opPath(res.disk, f.Step); isTmp(tmp) || kind == "rename" {
		target := ""
		for _, o := range base.disk.Log {
			if o.Kind == "rename" && o.Path == tmp {
				target = o.Path2
			}
		}
		if target != "" {
			real := target
			if byName, realSkill, ok := e.skillPaths(s); ok && strings.HasPrefix(target, byName+"/") {
				real = realSkill + target[len(byName):]
			}
			pr, had := preSnap[real]
			po, has := post[real]
			if had != has || (had && pr != po) {
				return "dest_replaced_despite_error:" + kind, fmt.Sprintf("step %d (%s of %s) failed and an error was reported, yet %s is no longer what it was before the run", f.Step, kind, tmp, target)
			}
		}
	}
	for p := range post {
		// when the failing step is the removal of the temporary file itself nothing can take it away
		if isTmp(p) && kind != "unlink" {
			if _, had := preSnap[p]; !had && !res.disk.Planted[p] && !res.disk.Planted[filepath.Base(p)] {
				return "tmp_left_after_error:" + kind, fmt.Sprintf("temporary file %s left behind after %s failed with %s", p, kind, f.Errno)
			}
		}
	}
	return "", ""
}

func opPath(d *simos.Disk, step int) string {
	for _, o := range d.Log {
		if o.Step == step {
			return o.Path
		}
	}
	return "?"
}

// checkC16 judges one fault-free run.
func checkC16(e *env, s *scenario, preSnap map[string]simos.Entry, res runResult) (string, string) {
	if !res.found {
		return "subcommand_missing", "the CLI offers no subcommand " + s.Agent
	}
	base, ok := e.expectedBase(s.Agent, s.Path, s.User, s.Cwd, s.Home)
	post := snapMap(res.disk)
	mutated := func() string {
		for _, o := range res.disk.Log {
			if o.Mutate && o.Err == "" {
				return o.Kind + " " + o.Path
			}
		}
		return ""
	}
	if !ok {
		// --user without $HOME: must fail and touch nothing
		if res.err == nil {
			return "no_home_accepted", "installation with --user succeeded although $HOME is undefined"
		}
		if m := mutated(); m != "" {
			return "mutation_before_refusal", m
		}
		return "", ""
	}
	skillName, skill, _ := e.skillPaths(s)
	within := func(p string) bool { return p == skill || strings.HasPrefix(p, skill+"/") }
	ancestor := func(p string) bool { return p == "/" || strings.HasPrefix(skill, strings.TrimSuffix(p, "/")+"/") }
	// containment: whatever the outcome
	for p, po := range post {
		pr, had := preSnap[p]
		if had && pr == po {
			continue
		}
		if within(p) {
			continue
		}
		if !had && po.Kind == simos.KDir && ancestor(p) {
			continue
		}
		return "wrote_outside", fmt.Sprintf("%s was created or modified; expected destination is %s", p, skill)
	}
	for p := range preSnap {
		if _, still := post[p]; !still && !within(p) {
			return "removed_outside", fmt.Sprintf("%s was removed; expected destination is %s", p, skill)
		}
	}
	if pb, had := preSnap[base]; had && pb.Kind != simos.KDir && s.BaseLink == "" {
		if res.err == nil {
			return "base_is_file_accepted", "base path is a file and the installer reported success"
		}
		if m := mutated(); m != "" {
			return "mutation_before_refusal", m
		}
		return "", ""
	}
	if res.err != nil {
		// legitimate only when the pre-state makes installation impossible
		if hasKind(s, "dest_is_directory", "readonly_skill_dir_nonroot", "readonly_subdir_nonroot", "skill_dir_is_file", "base_is_file") {
			return "", ""
		}
		return "install_failed", fmt.Sprintf("fault-free installation failed: %v", res.err)
	}
	if miss := completeTree(e, skill, post); miss != "" {
		return "tree_incomplete", miss + " under " + skill
	}
	want := map[string]bool{}
	for _, rel := range e.rels {
		want[skill+"/"+rel] = true
	}
	for p, po := range post {
		if !within(p) || want[p] {
			continue
		}
		if _, had := preSnap[p]; !had && po.Kind != simos.KDir && !res.disk.Planted[p] && !res.disk.Planted[filepath.Base(p)] {
			return "extra_file", fmt.Sprintf("%s is not part of the skill tree", p)
		}
	}
	if !strings.Contains(string(res.disk.StdoutBuf), skillName) {
		return "reported_path_wrong", fmt.Sprintf("success message %q does not name %s", strings.TrimSpace(string(res.disk.StdoutBuf)), skillName)
	}
	return "", ""
}

func hasKind(s *scenario, ks ...string) bool {
	for _, k := range s.Kinds {
		for _, w := range ks {
			if k == w {
				return true
			}
		}
	}
	return false
}

// ---------------------------------------------------------------- driver

type stats struct {
	scenarios, runs, crashRuns, errorRuns, reruns, tolerated int
	faultFired                                               map[string]int
	stepKinds                                                map[string]int
	preKinds                                                 map[string]int
	distinct                                                 map[string]struct{}
	maxSteps                                                 int
	baseFail                                                 int
}

var errnos = []string{"EIO", "ENOSPC", "EACCES", "EMFILE", "EROFS", "EDQUOT", "EINTR", "EAGAIN"}

// enumerate builds every single-fault plan for a run of L steps.
func enumerate(d *simos.Disk) [][]simos.Fault {
	var plans [][]simos.Fault
	for _, o := range d.Log {
		plans = append(plans, []simos.Fault{{Step: o.Step, Kind: "crash_before"}}, []simos.Fault{{Step: o.Step, Kind: "crash_after"}})
		for _, en := range errnos {
			plans = append(plans, []simos.Fault{{Step: o.Step, Kind: "fail", Errno: en}})
		}
		if o.Kind == "write" {
			// cut points: first byte, middle (-2), all but one byte (-1); resolved by simos against the payload
			for _, n := range []int{1, -2, -1} {
				plans = append(plans, []simos.Fault{{Step: o.Step, Kind: "crash_mid", N: n}})
				plans = append(plans, []simos.Fault{{Step: o.Step, Kind: "short", N: n, Errno: "ENOSPC"}}, []simos.Fault{{Step: o.Step, Kind: "short", N: n, Errno: "EIO"}})
			}
			plans = append(plans, []simos.Fault{{Step: o.Step, Kind: "short", N: 0, Errno: "EDQUOT"}})
			// an interrupted write: part of the payload is on disk, the call reports a retryable error
			plans = append(plans, []simos.Fault{{Step: o.Step, Kind: "short", N: -2, Errno: "EINTR"}}, []simos.Fault{{Step: o.Step, Kind: "short", N: 1, Errno: "EAGAIN"}})
		}
	}
	return plans
}

func main() {
	mode := flag.String("mode", "c15", "c15 | c16 | replay | describe")
	seed := flag.Uint64("seed", 1, "VERIF_SEED")
	n := flag.Int("scenarios", 100, "number of scenarios")
	shard := flag.Int("shard", 0, "shard index")
	shards := flag.Int("shards", 1, "shard count")
	skillSrc := flag.String("skill", "", "skill tree on disk")
	readme := flag.String("readme", "", "README.md")
	out := flag.String("out", "", "result file")
	replay := flag.String("replay", "", "replay file")
	flag.Parse()
	start := time.Now()

	doc, err := parseReadme(*readme)
	if err != nil {
		fmt.Fprintln(os.Stderr, "disksim:", err)
		os.Exit(2)
	}
	skill, rels, err := loadSkill(*skillSrc)
	if err != nil || len(rels) == 0 {
		fmt.Fprintln(os.Stderr, "disksim: cannot read skill tree:", err)
		os.Exit(2)
	}
	e := &env{doc: doc, skill: skill, rels: rels, skillDir: filepath.Base(*skillSrc)}

	if *mode == "replay" {
		os.Exit(doReplay(e, *replay))
	}

	st := &stats{faultFired: map[string]int{}, stepKinds: map[string]int{}, preKinds: map[string]int{}, distinct: map[string]struct{}{}}
	var viols []violation
	seenSig := map[string]int{}
	var samples []any
	report := func(prop, sig, detail string, s scenario, plan []simos.Fault, d *simos.Disk) {
		seenSig[prop+"|"+sig]++
		if seenSig[prop+"|"+sig] > 3 {
			return
		}
		viols = append(viols, violation{Property: prop, Signature: sig, Detail: detail, Scenario: s, Plan: plan, LogHash: logHash(d), OpLog: d.Log})
	}

	switch *mode {
	case "c15":
		for i := *shard; i < *n; i += *shards {
			r := newRng(*seed, 15, uint64(i))
			s := genScenario(e, r, fmt.Sprintf("c15-%d-%d", *seed, i), true)
			pre := buildDisk(&s)
			preSnap := snapMap(pre)
			base := execute(&s, pre, nil)
			if !base.found {
				report("C15", "subcommand_missing", "no subcommand "+s.Agent, s, nil, base.disk)
				continue
			}
			st.scenarios++
			for _, k := range s.Kinds {
				st.preKinds[k]++
			}
			baseOK := base.err == nil
			if !baseOK {
				st.baseFail++
			}
			if len(base.disk.Log) > st.maxSteps {
				st.maxSteps = len(base.disk.Log)
			}
			for _, o := range base.disk.Log {
				st.stepKinds[o.Kind]++
			}
			for _, plan := range enumerate(base.disk) {
				res := execute(&s, pre, plan)
				st.runs++
				for _, f := range res.disk.Fired {
					st.faultFired[strings.SplitN(f, ":", 2)[0]]++
				}
				if len(res.disk.Fired) == 0 {
					continue // the step was never reached in this run (cannot happen for single faults)
				}
				st.distinct[logHash(res.disk)] = struct{}{}
				if sig, detail := checkC15(e, &s, pre, preSnap, plan, res, base, st); sig != "" {
					ms, mp := minimise(e, s, plan, sig)
					mres := execute(&ms, buildDisk(&ms), mp)
					report("C15", sig, detail, ms, mp, mres.disk)
				}
				if len(samples) < 3 && st.runs%97 == 5 {
					samples = append(samples, map[string]any{"scenario": s.ID, "agent": s.Agent, "path": s.Path, "user": s.User, "pre_kinds": s.Kinds, "fault": plan[0], "crashed": res.crashed, "error": fmt.Sprint(res.err), "steps": len(res.disk.Log)})
				}
			}
		}
	case "c16":
		// the agent x flag matrix is enumerated completely first, then seeded scenarios
		var scen []scenario
		flags := []struct {
			p string
			u bool
		}{{"", false}, {"", true}, {"rel/skills", false}, {"/abs/skills", false}, {"custom", true}}
		idx := 0
		for _, a := range e.doc {
			for _, f := range flags {
				for _, preKind := range []int{0, 1, 2} {
					r := newRng(*seed, 16, uint64(idx))
					s := genScenario(e, r, fmt.Sprintf("c16-matrix-%d", idx), false)
					s.Agent, s.Path, s.User = a.CLI, f.p, f.u
					if s.Home == "" {
						s.Home = "/home/u"
					}
					if preKind == 0 || preKind == 2 {
						s.Pre = []preOp{{Op: "mkdir", Path: s.Cwd, Mode: 0o755}, {Op: "mkdir", Path: s.Home, Mode: 0o755}}
						s.Kinds = []string{"fresh", "matrix"}
						s.Uid, s.TempClash, s.BaseLink = 0, false, ""
						s.Env = nil
						if preKind == 2 {
							// every cell once more in a session that sets the XDG base directories
							s.Env = map[string]string{"XDG_CONFIG_HOME": "/xdg/config", "XDG_DATA_HOME": "/xdg/data", "XDG_CACHE_HOME": "/xdg/cache", "TMPDIR": "/var/tmp/u"}
							s.Kinds = append(s.Kinds, "environment_set")
						}
					} else {
						// regenerate the pre-state for the forced flags
						r2 := newRng(*seed, 1616, uint64(idx))
						t := genScenarioFor(e, r2, s.ID, a.CLI, f.p, f.u)
						s = t
						s.Kinds = append(s.Kinds, "matrix")
					}
					scen = append(scen, s)
					idx++
				}
			}
		}
		for i := 0; i < *n; i++ {
			r := newRng(*seed, 160, uint64(i))
			s := genScenario(e, r, fmt.Sprintf("c16-%d-%d", *seed, i), true)
			if r.chance(1, 3) {
				o := pick(r, e.doc)
				s.Before = &struct {
					Agent string `json:"agent"`
					Path  string `json:"path"`
					User  bool   `json:"user"`
				}{Agent: o.CLI, Path: s.Path, User: s.User}
				if r.chance(1, 2) {
					s.Before.Agent = s.Agent
				}
				s.Kinds = append(s.Kinds, "sequence")
			}
			scen = append(scen, s)
		}
		// agents the CLI offers beyond the documentation, and vice versa
		offered := map[string]bool{}
		for _, c := range cliCommands() {
			offered[c.name] = true
		}
		for _, a := range e.doc {
			if !offered[a.CLI] {
				report("C16", "subcommand_missing", "documented agent "+a.CLI+" has no subcommand", scenario{ID: "cli-surface", Agent: a.CLI}, nil, simos.NewDisk())
			}
			delete(offered, a.CLI)
		}
		for name := range offered {
			report("C16", "subcommand_undocumented", "subcommand "+name+" is not in README's supported agents", scenario{ID: "cli-surface", Agent: name}, nil, simos.NewDisk())
		}
		for i, s := range scen {
			if i%*shards != *shard {
				continue
			}
			s := s
			pre := buildDisk(&s)
			if s.Before != nil {
				b := s
				b.Agent, b.Path, b.User = s.Before.Agent, s.Before.Path, s.Before.User
				first := execute(&b, pre, nil)
				pre = first.disk.CloneAlive()
			}
			preSnap := snapMap(pre)
			res := execute(&s, pre, nil)
			st.scenarios++
			st.runs++
			for _, k := range s.Kinds {
				st.preKinds[k]++
			}
			for _, o := range res.disk.Log {
				st.stepKinds[o.Kind]++
			}
			for _, f := range res.disk.Fired {
				st.faultFired[f]++
			}
			st.distinct[fmt.Sprintf("%s|%v|%v|%s|%s|%v", s.Agent, s.Path != "", s.User, strings.Join(s.Kinds, ","), s.Cwd, res.err != nil)] = struct{}{}
			if sig, detail := checkC16(e, &s, preSnap, res); sig != "" {
				report("C16", sig, detail, s, nil, res.disk)
			}
			if len(samples) < 3 && i%41 == 7 {
				samples = append(samples, map[string]any{"scenario": s.ID, "agent": s.Agent, "path": s.Path, "user": s.User, "cwd": s.Cwd, "home": s.Home, "pre_kinds": s.Kinds, "error": fmt.Sprint(res.err), "stdout": strings.TrimSpace(string(res.disk.StdoutBuf)), "steps": len(res.disk.Log)})
			}
		}
	default:
		fmt.Fprintln(os.Stderr, "disksim: unknown mode", *mode)
		os.Exit(2)
	}

	result := map[string]any{
		"mode": *mode, "seed": *seed, "shard": *shard, "scenarios": st.scenarios, "runs": st.runs,
		"crash_runs": st.crashRuns, "error_runs": st.errorRuns, "reruns_after_crash": st.reruns, "tolerated_failures": st.tolerated,
		"fault_fired": st.faultFired, "step_kinds": st.stepKinds, "pre_kinds": st.preKinds, "distinct": keys(st.distinct),
		"max_steps": st.maxSteps, "base_failures": st.baseFail, "violations": viols, "samples": samples,
		"agents_documented": len(e.doc), "skill_files": len(e.rels), "wall_s": time.Since(start).Seconds(),
	}
	b, _ := json.Marshal(result)
	if *out == "" {
		fmt.Println(string(b))
	} else if err := os.WriteFile(*out, b, 0o644); err != nil {
		fmt.Fprintln(os.Stderr, "disksim:", err)
		os.Exit(2)
	}
}

func keys(m map[string]struct{}) []string {
	out := make([]string, 0, len(m))
	for k := range m {
		out = append(out, k)
	}
	sort.Strings(out)
	return out
}

// genScenarioFor draws a pre-state for fixed agent and flags.
func genScenarioFor(e *env, r *rng, id, cli, path string, user bool) scenario {
	for {
		s := genScenario(e, r, id, false)
		// genScenario places the pre-state relative to its own draw of agent/flags; redraw until
		// they match would be wasteful, so rebuild with the forced values instead.
		s.Agent, s.Path, s.User = cli, path, user
		if s.Home == "" {
			s.Home = "/home/u"
		}
		base, _ := e.expectedBase(cli, path, user, s.Cwd, s.Home)
		skill := simos.Clean(base + "/" + e.skillDir)
		s.Pre = []preOp{{Op: "mkdir", Path: s.Cwd, Mode: 0o755}, {Op: "mkdir", Path: s.Home, Mode: 0o755}}
		s.Kinds = []string{"older_install", "unrelated_files"}
		for _, rel := range e.rels {
			s.Pre = append(s.Pre, preOp{Op: "write", Path: skill + "/" + rel, Data: "OLD " + rel, Mode: pick(r, modes)})
		}
		s.Pre = append(s.Pre, preOp{Op: "write", Path: base + "/other-skill/SKILL.md", Data: "unrelated", Mode: 0o600},
			preOp{Op: "write", Path: skill + "/notes.txt", Data: "unrelated inside", Mode: 0o600},
			preOp{Op: "write", Path: s.Cwd + "/main.go", Data: "package main", Mode: 0o644})
		s.Uid, s.TempClash, s.BaseLink = 0, false, ""
		return s
	}
}

// minimise drops pre-state operations and simplifies flags while the signature stays the same.
func minimise(e *env, s scenario, plan []simos.Fault, sig string) (scenario, []simos.Fault) {
	same := func(c scenario) bool {
		pre := buildDisk(&c)
		preSnap := snapMap(pre)
		base := execute(&c, pre, nil)
		if !base.found {
			return false
		}
		// the fault step number refers to the run it was found in; keep it only if it still exists
		if plan[0].Step > len(base.disk.Log) {
			return false
		}
		res := execute(&c, pre, plan)
		if len(res.disk.Fired) == 0 {
			return false
		}
		got, _ := checkC15(e, &c, pre, preSnap, plan, res, base, &stats{})
		return got == sig
	}
	cur := s
	for changed := true; changed; {
		changed = false
		for i := len(cur.Pre) - 1; i >= 0; i-- {
			c := cur
			c.Pre = append(append([]preOp{}, cur.Pre[:i]...), cur.Pre[i+1:]...)
			if same(c) {
				cur = c
				changed = true
			}
		}
		if cur.TempClash {
			c := cur
			c.TempClash = false
			if same(c) {
				cur = c
				changed = true
			}
		}
		if cur.Uid != 0 {
			c := cur
			c.Uid = 0
			if same(c) {
				cur = c
				changed = true
			}
		}
	}
	return cur, plan
}

func doReplay(e *env, file string) int {
	b, err := os.ReadFile(file)
	if err != nil {
		fmt.Fprintln(os.Stderr, "disksim:", err)
		return 2
	}
	var v violation
	if err := json.Unmarshal(b, &v); err != nil {
		fmt.Fprintln(os.Stderr, "disksim: bad replay file:", err)
		return 2
	}
	s := v.Scenario
	pre := buildDisk(&s)
	if s.Before != nil {
		bs := s
		bs.Agent, bs.Path, bs.User = s.Before.Agent, s.Before.Path, s.Before.User
		pre = execute(&bs, pre, nil).disk.CloneAlive()
	}
	preSnap := snapMap(pre)
	var sig, detail string
	var res runResult
	switch v.Property {
	case "C15":
		base := execute(&s, pre, nil)
		res = execute(&s, pre, v.Plan)
		sig, detail = checkC15(e, &s, pre, preSnap, v.Plan, res, base, &stats{})
	case "C16":
		res = execute(&s, pre, nil)
		sig, detail = checkC16(e, &s, preSnap, res)
		if v.Signature == "subcommand_missing" || v.Signature == "subcommand_undocumented" {
			offered := map[string]bool{}
			for _, c := range cliCommands() {
				offered[c.name] = true
			}
			documented := e.agent(s.Agent) != nil
			switch {
			case documented && !offered[s.Agent]:
				sig, detail = "subcommand_missing", "documented agent "+s.Agent+" has no subcommand"
			case !documented && offered[s.Agent]:
				sig, detail = "subcommand_undocumented", "subcommand "+s.Agent+" is not documented"
			default:
				sig = ""
			}
		}
	default:
		fmt.Fprintln(os.Stderr, "disksim: replay file is for property", v.Property)
		return 2
	}
	for _, o := range res.disk.Log {
		fmt.Printf("  step %2d %-10s %s %s %s %s\n", o.Step, o.Kind, o.Path, o.Path2, o.Err, o.Note)
	}
	h := logHash(res.disk)
	fmt.Printf("replay: property=%s signature=%q log_hash=%s (recorded signature=%q log_hash=%s)\n", v.Property, sig, h, v.Signature, v.LogHash)
	if sig == "" {
		fmt.Println("replay: the violation does NOT reproduce on this tree")
		return 0
	}
	fmt.Println("replay: " + detail)
	if sig != v.Signature || (v.LogHash != "" && h != v.LogHash) {
		fmt.Println("replay: reproduces a violation, but not the recorded one (tree changed since it was recorded?)")
	}
	fmt.Printf("VIOLATION property=%s replay=%s\n", v.Property, file)
	return 1
}
