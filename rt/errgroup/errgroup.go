// Package errgroup stands in for golang.org/x/sync/errgroup inside instrumented
// injectors: same identifiers, but goroutines are simulator threads, Wait is a
// yield point and the derived context is simulator-owned. Semantics follow x/sync
// v0.19.0: the first non-nil error is kept and cancels the derived context at
// once; Wait cancels it after every goroutine has finished.
package errgroup

import (
	"context"

	"verif/rt/simrt"
)

type Group struct {
	g *simrt.Group
}

func WithContext(ctx context.Context) (*Group, context.Context) {
	g, c := simrt.NewGroup(ctx, true)
	return &Group{g: g}, c
}

func (g *Group) lazy() *simrt.Group {
	if g.g == nil {
		g.g, _ = simrt.NewGroup(nil, false)
	}
	return g.g
}

func (g *Group) Go(f func() error) { g.lazy().Go(f) }
func (g *Group) Wait() error       { return g.lazy().Wait() }

// SetLimit / TryGo are not emitted by the generator today; they are simulated with x/sync's semantics
// (Go blocks while the limit is reached) so that a change that starts using them is judged, not rejected.
func (g *Group) SetLimit(n int)            { g.lazy().SetLimit(n) }
func (g *Group) TryGo(f func() error) bool { return g.lazy().TryGo(f) }
