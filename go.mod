module verif

go 1.24.0
