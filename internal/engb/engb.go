// Package engb drives engine B (gensim): the generator as a process with history.
// Controlled: Go map iteration order inside the generator (rewritten in a scratch copy),
// the history of the output directory (previous / stale / truncated output files).
// Sampled: process-level randomness (repeated real runs under different GOMAXPROCS).
package engb

import (
	"bytes"
	"crypto/sha256"
	"encoding/json"
	"fmt"
	"os"
	"os/exec"
	"path/filepath"
	"regexp"
	"sort"
	"strings"
	"sync"
	"time"

	"verif/internal/drv"
	"verif/internal/enga"
	"verif/internal/progen"
)

const repoMod = "github.com/mazrean/kessoku"

type env struct {
	*enga.Env
	cliMap   string // generator with map iteration behind the simmap seam
	mapSites int
	late     [][2]string // files written after the compile check of the generated sources (path, content)
	strace   bool        // strace can kill a real generator run at a chosen write (history op "crash")
}

func prepare() *env {
	e := &env{Env: enga.PrepareEnv()}
	if _, err := exec.LookPath("strace"); err == nil {
		if r := drv.Run(e.Scratch, time.Minute, nil, "strace", "-o", "/dev/null", "-e", "trace=write", "true"); r.Err == nil {
			e.strace = true
		}
	}
	// second copy of the tree: map ranges rewritten
	repo2 := filepath.Join(e.Scratch, "repo-maporder")
	drv.CopyRepo(repo2)
	rw := func(src []byte) []byte {
		return []byte(strings.ReplaceAll(string(src), `"verif/rt/`, `"`+repoMod+`/internal/verifsim/`))
	}
	for _, p := range []string{"simmap", "maprw"} {
		drv.CopyTree(filepath.Join(drv.Root, "rt", p), filepath.Join(repo2, "internal", "verifsim", p), rw)
	}
	tool := filepath.Join(e.Scratch, "maprw")
	if r := drv.Run(repo2, 10*time.Minute, nil, "go", "build", "-tags", "verifscratch", "-o", tool, "./internal/verifsim/maprw"); r.Err != nil {
		drv.Broken("building the map-range rewriter failed:\n%s", r.Out)
	}
	r := drv.Run(repo2, 10*time.Minute, nil, tool, repo2, "./internal/kessoku/...", "./internal/pkg/...", "./internal/config/...")
	if r.Err != nil {
		drv.Broken("map-range rewriter failed:\n%s", r.Out)
	}
	e.mapSites = strings.Count(string(r.Out), "maprw: /") + strings.Count(string(r.Out), ": range over map") - strings.Count(string(r.Out), "maprw: /")
	e.mapSites = strings.Count(string(r.Out), ": range over map") + strings.Count(string(r.Out), ": maps.")
	e.cliMap = filepath.Join(e.Scratch, "kessoku-maporder")
	if r := drv.Run(repo2, 10*time.Minute, nil, "go", "build", "-o", e.cliMap, "./cmd/kessoku"); r.Err != nil {
		drv.Broken("building the generator with rewritten map ranges failed (rewriter bug, never a violation):\n%s", r.Out)
	}
	_ = os.RemoveAll(filepath.Join(repo2, ".git"))
	return e
}

// target is one input package on which the generator is exercised.
type target struct {
	name   string
	src    string   // pristine directory (no output files)
	files  []string // declaration files, in invocation order
	origin string   // progen | testdata | example
	spec   *progen.Spec
	wroot  string // where working copies are created (must keep the package importable)
}

func bandOf(f string) string { return strings.TrimSuffix(f, ".go") + "_band.go" }

func copyDir(src, dst string) {
	if err := os.MkdirAll(dst, 0o755); err != nil {
		drv.Broken("%v", err)
	}
	ents, err := os.ReadDir(src)
	if err != nil {
		drv.Broken("%v", err)
	}
	for _, e := range ents {
		if e.IsDir() || strings.HasSuffix(e.Name(), "_band.go") || e.Name() == "expected.go" {
			continue
		}
		b, err := os.ReadFile(filepath.Join(src, e.Name()))
		if err != nil {
			drv.Broken("%v", err)
		}
		if err := os.WriteFile(filepath.Join(dst, e.Name()), b, 0o644); err != nil {
			drv.Broken("%v", err)
		}
	}
}

type genResult struct {
	code   int
	stderr string
	out    map[string]string // band file -> content
}

// generate runs the generator and collects the output files THIS run wrote (an output file that was
// lying in the directory and was not rewritten is a leftover, not output).
func (e *env) generate(cli, dir string, files []string, extraEnv ...string) genResult {
	return e.generateFrom(cli, dir, files, dir, files, extraEnv...)
}

// generateFrom is generate with the invocation spelled differently: the process starts in cwd and
// names the declaration files as args (absolute, or relative to cwd); dir/files say where the output lands.
func (e *env) generateFrom(cli, cwd string, args []string, dir string, files []string, extraEnv ...string) genResult {
	before := map[string]time.Time{}
	for _, f := range files {
		if fi, err := os.Stat(filepath.Join(dir, bandOf(f))); err == nil {
			before[bandOf(f)] = fi.ModTime()
		}
	}
	start := time.Now()
	r := drv.Run(cwd, 5*time.Minute, extraEnv, cli, append([]string{"-l", "error"}, args...)...)
	if r.Code == -2 {
		drv.Broken("generator timed out in %s", dir)
	}
	res := genResult{code: r.Code, stderr: string(r.Out), out: map[string]string{}}
	for _, f := range files {
		p := filepath.Join(dir, bandOf(f))
		fi, err := os.Stat(p)
		if err != nil {
			continue
		}
		if old, had := before[bandOf(f)]; had && fi.ModTime().Equal(old) && fi.ModTime().Before(start) && r.Code != 0 {
			continue // a failed run did not touch it: a leftover, not output. (A successful run that leaves a file as it is vouches for its content.)
		}
		if b, err := os.ReadFile(p); err == nil {
			res.out[bandOf(f)] = string(b)
		}
	}
	return res
}

func sameOut(a, b map[string]string) bool {
	if len(a) != len(b) {
		return false
	}
	for k, v := range a {
		if b[k] != v {
			return false
		}
	}
	return true
}

func digest(m map[string]string) string {
	ks := make([]string, 0, len(m))
	for k := range m {
		ks = append(ks, k)
	}
	sort.Strings(ks)
	h := sha256.New()
	for _, k := range ks {
		fmt.Fprintf(h, "%s\x00%s\x00", k, m[k])
	}
	return fmt.Sprintf("%x", h.Sum(nil))[:16]
}

var reIdent = regexp.MustCompile(`[A-Za-z_][A-Za-z0-9_]*`)
var reSuffix = regexp.MustCompile(`[0-9]+$`)
var reImportAlias = regexp.MustCompile(`(?m)^\s*[A-Za-z_][A-Za-z0-9_]* ("[^"]+")\s*$`)
var reFuncDecl = regexp.MustCompile(`(?m)^func ([A-Za-z_][A-Za-z0-9_]*)\(`)
var reImportPath = regexp.MustCompile(`(?m)^\s*(?:([A-Za-z_][A-Za-z0-9_]*) )?"([^"]+)"\s*$`)

// leftoverNames lists what the output files lying in dir declare at package level or import.
func leftoverNames(dir string) map[string]bool {
	names := map[string]bool{}
	ents, _ := os.ReadDir(dir)
	for _, e := range ents {
		if !strings.HasSuffix(e.Name(), "_band.go") {
			continue
		}
		b, _ := os.ReadFile(filepath.Join(dir, e.Name()))
		for _, m := range reFuncDecl.FindAllStringSubmatch(string(b), -1) {
			names[m[1]] = true
		}
		for _, m := range reImportPath.FindAllStringSubmatch(string(b), -1) {
			if m[1] != "" {
				names[reSuffix.ReplaceAllString(m[1], "")] = true
			}
			names[filepath.Base(m[2])] = true
		}
	}
	return names
}

// valueLostToLeftover names a package-level variable N such that a leftover output declares a
// function N, the clean output contains the provider expression kessoku.Value(N) (under any
// import alias) and the other output of the same file has lost it. "" if there is none.
func valueLostToLeftover(clean, other map[string]string, left map[string]bool, pkgVars []string) string {
	for _, n := range pkgVars {
		if !left[n] {
			continue
		}
		needle := ".Value(" + n + ")"
		for k, c := range clean {
			if strings.Contains(c, needle) && !strings.Contains(other[k], needle) {
				return n
			}
		}
	}
	return ""
}

// explainedByLeftovers: every identifier that got a different allocator suffix has a base name
// that a leftover output file declares or imports.
func explainedByLeftovers(clean, other map[string]string, left map[string]bool) bool {
	toks := func(v string) []string {
		return reIdent.FindAllString(reImportAlias.ReplaceAllString(v, "$1"), -1)
	}
	n := 0
	for k, a := range clean {
		ta, tb := toks(a), toks(other[k])
		if len(ta) != len(tb) {
			return false
		}
		for i := range ta {
			if ta[i] == tb[i] {
				continue
			}
			n++
			ba, bb := reSuffix.ReplaceAllString(ta[i], ""), reSuffix.ReplaceAllString(tb[i], "")
			if ba != bb || !left[ba] {
				return false
			}
		}
	}
	// import aliases that appear or disappear
	for k, a := range clean {
		al := func(v string) map[string]bool {
			m := map[string]bool{}
			for _, x := range reImportPath.FindAllStringSubmatch(v, -1) {
				if x[1] != "" {
					m[x[1]] = true
				}
			}
			return m
		}
		ma, mb := al(a), al(other[k])
		for x := range mb {
			if !ma[x] {
				n++
				if !left[reSuffix.ReplaceAllString(x, "")] {
					return false
				}
			}
		}
		for x := range ma {
			if !mb[x] {
				n++
				if !left[reSuffix.ReplaceAllString(x, "")] {
					return false
				}
			}
		}
	}
	return n > 0
}

// renamedOnly: the two outputs are equal once allocator suffixes are stripped from identifiers.
func renamedOnly(a, b map[string]string) bool {
	norm := func(s string) string {
		s = reImportAlias.ReplaceAllString(s, "$1")
		s = reIdent.ReplaceAllStringFunc(s, func(id string) string { return reSuffix.ReplaceAllString(id, "") })
		return strings.Join(strings.Fields(s), " ") // gofmt re-aligns columns when a name gets longer
	}
	if len(a) != len(b) {
		return false
	}
	for k, v := range a {
		w, ok := b[k]
		if !ok || norm(v) != norm(w) {
			return false
		}
	}
	return true
}

// ---------------------------------------------------------------- histories

type histOp struct {
	Op   string `json:"op"`   // gen | gen_other | truncate | empty | delete | gen_reverse | gen_single
	File string `json:"file"` // declaration file the op refers to
	Arg  int    `json:"arg"`  // truncate: per mille of the file length; gen_other: variant
}

var reInjectName = regexp.MustCompile(`(kessoku\.Inject\[[^\]]+\]\(\s*)"([A-Za-z_][A-Za-z0-9_]*)"`)

// otherVersion is an edited declaration: what the file looked like before the user's last edit.
var rePkgVar = regexp.MustCompile(`(?m)^var ([a-z]\w*)\b`)

// pkgVarNames lists the package-level variables the package's own (non-generated) files declare.
func pkgVarNames(dir string) []string {
	ents, _ := os.ReadDir(dir)
	var out []string
	for _, e := range ents {
		if !strings.HasSuffix(e.Name(), ".go") || strings.HasSuffix(e.Name(), "_band.go") || strings.HasSuffix(e.Name(), "_test.go") {
			continue
		}
		b, _ := os.ReadFile(filepath.Join(dir, e.Name()))
		for _, m := range rePkgVar.FindAllStringSubmatch(string(b), -1) {
			out = append(out, m[1])
		}
	}
	sort.Strings(out)
	return out
}

func otherVersion(src string, variant int, pkgVars []string) string {
	switch variant % 4 {
	case 0: // injectors had other names
		return reInjectName.ReplaceAllString(src, `${1}"${2}Old"`)
	case 1: // a provider was not Async yet
		return strings.Replace(src, "kessoku.Async(", "(", 1)
	case 2: // injector named like a local the generator would pick
		i := 0
		return reInjectName.ReplaceAllStringFunc(src, func(m string) string {
			i++
			sub := reInjectName.FindStringSubmatch(m)
			// ... or like a package-level variable of the package: the stale output then declares a
			// function of that name
			names := append(append([]string{}, pkgVars...), "app", "config", "service", "num", "str", "val", "ctx0", "err0")
			return sub[1] + fmt.Sprintf(`"%s"`, names[(i-1)%len(names)])
		})
	default: // an extra injector existed
		return src + "\nvar _ = kessoku.Inject[struct{ X int }](\"InitGone\", kessoku.Provide(func() struct{ X int } { return struct{ X int }{} }))\n"
	}
}

func (e *env) applyOp(dir string, t *target, op histOp) {
	band := filepath.Join(dir, bandOf(op.File))
	switch op.Op {
	case "gen":
		e.generate(e.CLI, dir, t.files)
	case "gen_single":
		e.generate(e.CLI, dir, []string{op.File})
	case "gen_reverse":
		rev := append([]string{}, t.files...)
		sort.Sort(sort.Reverse(sort.StringSlice(rev)))
		e.generate(e.CLI, dir, rev)
	case "gen_other":
		p := filepath.Join(dir, op.File)
		orig, err := os.ReadFile(p)
		if err != nil {
			return
		}
		_ = os.WriteFile(p, []byte(otherVersion(string(orig), op.Arg, pkgVarNames(dir))), 0o644)
		e.generate(e.CLI, dir, []string{op.File})
		_ = os.WriteFile(p, orig, 0o644)
	case "crash":
		// a REAL earlier run killed in the middle of its output: SIGKILL at its N-th write system call
		if !e.strace {
			return
		}
		_ = drv.Run(dir, 2*time.Minute, nil, "strace", "-f", "-o", "/dev/null", "-e", "trace=write", "-e",
			fmt.Sprintf("inject=write:when=%d:signal=SIGKILL", op.Arg), e.CLI, "-l", "error", op.File)
	case "truncate":
		b, err := os.ReadFile(band)
		if err != nil {
			return
		}
		_ = os.WriteFile(band, b[:len(b)*op.Arg/1000], 0o644)
	case "link_out":
		// generated files kept in a store directory and linked into the package (symlink farms)
		b, err := os.ReadFile(band)
		if err != nil {
			return
		}
		store := filepath.Join(filepath.Dir(dir), "store")
		_ = os.MkdirAll(store, 0o755)
		tgt := filepath.Join(store, filepath.Base(band))
		if os.WriteFile(tgt, b, 0o644) != nil || os.Remove(band) != nil {
			return
		}
		_ = os.Symlink(tgt, band)
	case "reformat":
		// the previous output went through an editor or a VCS filter: same code, other bytes
		b, err := os.ReadFile(band)
		if err != nil {
			return
		}
		switch op.Arg {
		case 0:
			b = bytes.ReplaceAll(b, []byte("\n"), []byte("\r\n"))
		case 1:
			b = bytes.TrimRight(b, "\n")
		case 2:
			b = bytes.ReplaceAll(b, []byte("\t"), []byte("    "))
		default:
			b = append(bytes.ReplaceAll(b, []byte("\n\n"), []byte("\n\n\n")), '\n')
		}
		_ = os.WriteFile(band, b, 0o644)
	case "empty":
		if _, err := os.Stat(band); err == nil {
			_ = os.WriteFile(band, nil, 0o644)
		}
	case "delete":
		_ = os.Remove(band)
	}
}

// crashOdds: 1 in crashOdds of the "empty" draws becomes a real killed run (strace is slow: rarer in the quick tier).
var crashOdds = 0

func genHistory(r *progen.Rand, t *target) []histOp {
	n := 1 + r.Intn(4)
	var ops []histOp
	for i := 0; i < n; i++ {
		f := t.files[r.Intn(len(t.files))]
		var op histOp
		switch r.Intn(10) {
		case 0, 1, 2:
			op = histOp{Op: "gen", File: f}
		case 3, 4:
			op = histOp{Op: "gen_other", File: f, Arg: r.Intn(4)}
		case 5, 6:
			op = histOp{Op: "truncate", File: f, Arg: []int{0, 1, 500, 900, 999}[r.Intn(5)] + r.Intn(2)*r.Intn(100)}
			if op.Arg > 1000 {
				op.Arg = 1000
			}
		case 7:
			op = histOp{Op: "empty", File: f}
			if crashOdds > 0 && r.Chance(1, crashOdds) {
				op = histOp{Op: "crash", File: f, Arg: 10 + r.Intn(60)}
			}
		case 8:
			op = histOp{Op: "delete", File: f}
			if r.Chance(1, 2) {
				op = histOp{Op: "empty", File: f}
			}
			if i > 0 && r.Chance(1, 2) {
				op = histOp{Op: "reformat", File: f, Arg: r.Intn(4)}
				if r.Chance(1, 2) {
					op = histOp{Op: "link_out", File: f}
				}
			}
		case 9:
			if len(t.files) > 1 {
				op = histOp{Op: []string{"gen_reverse", "gen_single"}[r.Intn(2)], File: f}
			} else {
				op = histOp{Op: "gen", File: f}
			}
		}
		ops = append(ops, op)
	}
	// a truncation only means something when there is a file to truncate
	if ops[0].Op == "truncate" || ops[0].Op == "empty" || ops[0].Op == "delete" || (ops[0].Op == "crash" && r.Chance(1, 2)) {
		ops = append([]histOp{{Op: "gen", File: ops[0].File}}, ops...)
	}
	return ops
}

// ---------------------------------------------------------------- the check

type replayFile struct {
	Engine     string            `json:"engine"`
	Property   string            `json:"property"`
	Signature  string            `json:"signature"`
	Detail     string            `json:"detail"`
	Target     string            `json:"target"`
	Origin     string            `json:"origin"`
	Spec       *progen.Spec      `json:"spec,omitempty"`
	Files      []string          `json:"files"`
	History    []histOp          `json:"history,omitempty"`
	MapSeeds   []uint64          `json:"map_seeds,omitempty"`
	Procs      []int             `json:"gomaxprocs,omitempty"`
	Invocation int               `json:"invocation,omitempty"` // 1 = absolute file names + other TMPDIR/TZ/locale, 2 = from the parent directory
	Clean      map[string]string `json:"clean_output"`
	Other      map[string]string `json:"other_output"`
	Stderr     string            `json:"stderr,omitempty"`
}

type counters struct {
	mu                                                      sync.Mutex
	targets, rejected, cliRuns, mapRuns, histRuns, procRuns int
	histOps                                                 map[string]int
	distinctOutputs                                         map[string]struct{}
	distinctHistories                                       map[string]struct{}
	origins                                                 map[string]int
	samples                                                 []any
	truncEffective                                          int
}

type found struct {
	sig, detail string
	rf          replayFile
}

func (e *env) checkTarget(t *target, seed uint64, idx int, tier string, c *counters) []found {
	var out []found
	wid := 0
	work := func() string {
		wid++
		d := filepath.Join(t.wroot, fmt.Sprintf("w%d_%d", idx, wid), filepath.Base(t.src))
		copyDir(t.src, d)
		return d
	}
	done := func(d string) { _ = os.RemoveAll(filepath.Dir(d)) }
	mk := func(sig, detail string) found {
		return found{sig: sig, detail: t.name + ": " + detail, rf: replayFile{Engine: "gensim", Property: "C11", Signature: sig, Detail: detail, Target: t.name, Origin: t.origin, Spec: t.spec, Files: t.files}}
	}
	d0 := work()
	clean := e.generate(e.CLI, d0, t.files)
	done(d0)
	c.mu.Lock()
	c.cliRuns++
	c.targets++
	c.origins[t.origin]++
	c.mu.Unlock()
	if clean.code != 0 || len(clean.out) == 0 {
		c.mu.Lock()
		c.rejected++
		c.targets--
		c.mu.Unlock()
		return nil // the generator refuses this input: not C11's subject
	}
	c.mu.Lock()
	c.distinctOutputs[digest(clean.out)] = struct{}{}
	c.mu.Unlock()
	r := progen.NewRand(seed, 11, uint64(idx))

	// (1) map iteration order: controlled seam
	nSeeds := 4
	if tier == "thorough" {
		nSeeds = 12
	}
	for s := 0; s < nSeeds; s++ {
		ms := uint64(s)
		if s >= 2 {
			ms = 2 + r.Next()%1000000
		}
		d := work()
		g := e.generate(e.cliMap, d, t.files, fmt.Sprintf("VERIF_MAPSEED=%d", ms))
		done(d)
		c.mu.Lock()
		c.mapRuns++
		c.mu.Unlock()
		if g.code != clean.code || !sameOut(g.out, clean.out) {
			f := mk("map_order_dependent", fmt.Sprintf("output under map-iteration seed %d differs from the unmodified generator's output", ms))
			f.rf.MapSeeds = []uint64{ms}
			f.rf.Clean, f.rf.Other, f.rf.Stderr = clean.out, g.out, g.stderr
			out = append(out, f)
			break
		}
	}

	// (2) histories of the directory
	nHist := 6
	if tier == "thorough" {
		nHist = 24
	}
	// dedicated real-crash histories: the generator itself is killed at its N-th write, then run again
	nCrash := 0
	if e.strace {
		if tier == "thorough" {
			nCrash = 2
		} else if t.origin == "progen" && r.Chance(1, 2) {
			nCrash = 1
		}
	}
	for h := 0; h < nHist+nCrash; h++ {
		ops := genHistory(r, t)
		if h == nHist-1 {
			// one history per target is always: generated, then reformatted by something else
			f := t.files[r.Intn(len(t.files))]
			ops = []histOp{{Op: "gen", File: f}, {Op: "reformat", File: f, Arg: r.Intn(4)}}
		}
		if h == nHist-2 && r.Chance(1, 2) {
			// ... and for half of the targets one is: a stale output that lives behind a symbolic link
			f := t.files[r.Intn(len(t.files))]
			ops = []histOp{{Op: "gen_other", File: f, Arg: []int{2, 2, 0, 1, 3}[r.Intn(5)]}, {Op: "link_out", File: f}}
		}
		if h >= nHist {
			f := t.files[r.Intn(len(t.files))]
			ops = []histOp{{Op: "crash", File: f, Arg: 20 + r.Intn(45)}}
			if r.Chance(1, 2) {
				ops = append([]histOp{{Op: "gen", File: f}}, ops...)
			}
		}
		d := work()
		for _, op := range ops {
			e.applyOp(d, t, op)
		}
		left := leftoverNames(d)
		final := e.generate(e.CLI, d, t.files)
		done(d)
		var kinds []string
		for _, op := range ops {
			kinds = append(kinds, op.Op)
		}
		c.mu.Lock()
		c.histRuns++
		c.cliRuns += 1 + len(ops)
		for _, k := range kinds {
			c.histOps[k]++
		}
		c.distinctHistories[t.origin+"|"+strings.Join(kinds, ",")] = struct{}{}
		if len(c.samples) < 3 && h == 1 {
			c.samples = append(c.samples, map[string]any{"target": t.name, "origin": t.origin, "files": t.files, "history": ops, "identical_to_clean_run": final.code == 0 && sameOut(final.out, clean.out)})
		}
		c.mu.Unlock()
		if final.code != 0 {
			f := mk("history_run_failed", fmt.Sprintf("after history %v the generator exits %d: %s", kinds, final.code, lastLine(final.stderr)))
			f.rf.History, f.rf.Clean, f.rf.Other, f.rf.Stderr = ops, clean.out, final.out, final.stderr
			out = append(out, f)
			continue
		}
		if !sameOut(final.out, clean.out) {
			cause := "other"
			if renamedOnly(final.out, clean.out) {
				cause = "renamed-unexplained"
				if explainedByLeftovers(clean.out, final.out, left) {
					cause = "renamed-only,base-name-declared-in-leftover-output"
				}
			}
			if cause == "other" && len(t.files) > 1 {
				if n := valueLostToLeftover(clean.out, final.out, left, pkgVarNames(t.src)); n != "" {
					// the multi-file residual of the type-checking defect (DESIGN 15, 6b): a leftover output of
					// ANOTHER file of the invocation declares a function named like a package-level variable
					cause = "provider-of-a-package-variable-lost,function-of-that-name-declared-in-leftover-output"
				}
			}
			if len(t.files) > 1 {
				cause += ",multi-file-invocation"
			}
			f := mk("history_dependent("+cause+")", fmt.Sprintf("after history %v the output differs from a run in a clean directory (%s)", kinds, cause))
			f.rf.History, f.rf.Clean, f.rf.Other = ops, clean.out, final.out
			out = append(out, f)
		}
	}

	// (3) process-level randomness: sampled
	procs := []int{1, 2, 4, 16}
	if tier == "thorough" {
		procs = []int{1, 1, 2, 3, 4, 8, 16, 16}
	}
	for _, p := range procs {
		d := work()
		g := e.generate(e.CLI, d, t.files, fmt.Sprintf("GOMAXPROCS=%d", p))
		done(d)
		c.mu.Lock()
		c.procRuns++
		c.cliRuns++
		c.mu.Unlock()
		if g.code != clean.code || !sameOut(g.out, clean.out) {
			f := mk("process_nondeterministic", fmt.Sprintf("a repeated run under GOMAXPROCS=%d produced different output", p))
			f.rf.Procs, f.rf.Clean, f.rf.Other = []int{p}, clean.out, g.out
			out = append(out, f)
			break
		}
	}
	// (4) the same input invoked differently: absolute file names; from the parent directory; under
	// another TMPDIR / TZ / locale. The input package is the same, so is the output.
	for v := 0; v < 2; v++ {
		d := work()
		g := e.invokeVariant(d, t, v)
		how := invocationNames[v]
		done(d)
		c.mu.Lock()
		c.procRuns++
		c.cliRuns++
		c.mu.Unlock()
		if g.code != clean.code || !sameOut(g.out, clean.out) {
			f := mk("invocation_dependent", "the same files "+how+" produced different output")
			f.rf.Invocation, f.rf.Clean, f.rf.Other = v+1, clean.out, g.out
			out = append(out, f)
			break
		}
	}
	return out
}

var invocationNames = []string{"absolute file names, other TMPDIR/TZ/locale", "invoked from the parent directory"}

func (e *env) invokeVariant(d string, t *target, v int) genResult {
	if v == 0 {
		tmp := filepath.Join(filepath.Dir(d), "tmpdir")
		_ = os.MkdirAll(tmp, 0o755)
		envv := []string{"TMPDIR=" + tmp, "TZ=Pacific/Kiritimati", "LANG=tr_TR.UTF-8", "LC_ALL=tr_TR.UTF-8", "USER=someoneelse", "COLUMNS=20"}
		abs := make([]string, len(t.files))
		for i, f := range t.files {
			abs[i] = filepath.Join(d, f)
		}
		return e.generateFrom(e.CLI, d, abs, d, t.files, envv...)
	}
	rel := make([]string, len(t.files))
	for i, f := range t.files {
		rel[i] = filepath.Join(filepath.Base(d), f)
	}
	return e.generateFrom(e.CLI, filepath.Dir(d), rel, d, t.files)
}

func lastLine(s string) string {
	ls := strings.Split(strings.TrimSpace(s), "\n")
	return ls[len(ls)-1]
}

// targets assembles the inputs: seeded adversarial programs, the repository's testdata and examples.
func (e *env) targets(seed uint64, n int) []*target {
	var ts []*target
	e.late = nil
	late := e.late
	prof := progen.Profile{Name: "C11", AdversarialNames: true, RiskyShapes: 300, Families: false, MaxProviders: 8}
	for i := 0; i < n; i++ {
		r := progen.NewRand(seed, 1100, uint64(i))
		sp := progen.Gen(r, fmt.Sprintf("q%04d", i), prof)
		dir := filepath.Join(e.Mod, "gen", sp.Pkg)
		_ = os.MkdirAll(dir, 0o755)
		for name, src := range sp.Files() {
			if sp.Compose != nil && name == sp.Compose.File {
				continue // compiles only once the first file has been generated: written after the compile check
			}
			_ = os.WriteFile(filepath.Join(dir, name), []byte(src), 0o644)
		}
		files := sp.DeclFiles()
		if sp.Compose != nil {
			files = []string{"k0.go", sp.Compose.File}
			late = append(late, [2]string{filepath.Join(dir, sp.Compose.File), sp.Files()[sp.Compose.File]})
		} else if !sp.OneInvoke && len(files) > 1 {
			// engine B always passes every declaration file in one invocation or exactly one file
			if r.Chance(1, 2) {
				files = files[:1]
			}
		}
		ts = append(ts, &target{name: sp.Pkg, src: dir, files: files, origin: "progen", spec: sp, wroot: filepath.Join(e.Mod, "w")})
	}
	e.late = late
	td := filepath.Join(e.Repo, "internal", "kessoku", "testdata")
	if ents, err := os.ReadDir(td); err == nil {
		for _, en := range ents {
			if en.IsDir() {
				if _, err := os.Stat(filepath.Join(td, en.Name(), "kessoku.go")); err == nil {
					ts = append(ts, &target{name: "testdata/" + en.Name(), src: filepath.Join(td, en.Name()), files: []string{"kessoku.go"}, origin: "testdata", wroot: filepath.Join(e.Repo, "internal", "kessoku", "testdata_w")})
				}
			}
		}
	}
	ex := filepath.Join(e.Repo, "examples")
	if ents, err := os.ReadDir(ex); err == nil {
		for _, en := range ents {
			if en.IsDir() {
				if _, err := os.Stat(filepath.Join(ex, en.Name(), "kessoku.go")); err == nil {
					ts = append(ts, &target{name: "examples/" + en.Name(), src: filepath.Join(ex, en.Name()), files: []string{"kessoku.go"}, origin: "example", wroot: filepath.Join(e.Repo, "examples_w")})
				}
			}
		}
	}
	return ts
}

// examplesFresh: the checked-in example injectors are what the current generator produces.
func (e *env) examplesFresh(c *counters) []found {
	var out []found
	ex := filepath.Join(e.Repo, "examples")
	ents, err := os.ReadDir(ex)
	if err != nil {
		drv.Broken("examples directory missing: %v", err)
	}
	n := 0
	for _, en := range ents {
		src := filepath.Join(ex, en.Name())
		committed, err := os.ReadFile(filepath.Join(src, "kessoku_band.go"))
		if err != nil {
			continue
		}
		n++
		d := filepath.Join(e.Repo, "examples_w", "fresh", en.Name())
		copyDir(src, d)
		g := e.generate(e.CLI, d, []string{"kessoku.go"})
		_ = os.RemoveAll(d)
		c.cliRuns++
		if g.code != 0 || g.out["kessoku_band.go"] != string(committed) {
			detail := fmt.Sprintf("examples/%s/kessoku_band.go is not what the current generator produces from its sources (exit %d)", en.Name(), g.code)
			out = append(out, found{sig: "example_stale:" + en.Name(), detail: detail, rf: replayFile{Engine: "gensim", Property: "C11", Signature: "example_stale:" + en.Name(), Detail: detail, Target: "examples/" + en.Name(), Origin: "example-committed", Files: []string{"kessoku.go"}, Clean: map[string]string{"kessoku_band.go": string(committed)}, Other: g.out, Stderr: g.stderr}})
		}
	}
	if n == 0 {
		drv.Broken("no checked-in example injectors found")
	}
	c.origins["example-committed"] = n
	return out
}

func Run(tier string) int {
	start := time.Now()
	seed := drv.Seed()
	fmt.Printf("C11 %s VERIF_SEED=%d\n", tier, seed)
	e := prepare()
	n := 64
	crashOdds = 0
	if tier == "thorough" {
		crashOdds = 2
		n = 600
	}
	if v := os.Getenv("VERIF_PROGRAMS"); v != "" {
		fmt.Sscan(v, &n)
	}
	ts := e.targets(seed, n)
	// progen sources must compile on their own
	if r := drv.Run(e.Mod, 10*time.Minute, nil, "go", "build", "./gen/..."); r.Err != nil {
		drv.Broken("progen produced packages that do not compile (harness bug):\n%s", r.Out)
	}
	for _, f := range e.late {
		_ = os.WriteFile(f[0], []byte(f[1]), 0o644)
	}
	c := &counters{histOps: map[string]int{}, distinctOutputs: map[string]struct{}{}, distinctHistories: map[string]struct{}{}, origins: map[string]int{}}
	all := make([][]found, len(ts))
	drv.Parallel(len(ts), drv.Workers(), func(i int) {
		all[i] = e.checkTarget(ts[i], seed, i, tier, c)
	})
	out := drv.NewOutcome("C11")
	sigCounts := map[string]int{}
	add := func(f found) {
		sigCounts[f.sig]++
		raw, _ := json.MarshalIndent(f.rf, "", " ")
		out.Add(drv.Violation{Property: "C11", Signature: f.sig, Detail: f.detail, Replay: raw})
	}
	for _, fs := range all {
		for _, f := range fs {
			add(f)
		}
	}
	for _, f := range e.examplesFresh(c) {
		add(f)
	}
	if c.targets == 0 || c.histRuns == 0 || c.mapRuns == 0 {
		drv.Broken("vacuous C11 run: targets=%d", c.targets)
	}
	if c.rejected*100 > (c.targets+c.rejected)*50 {
		drv.Broken("%d of %d inputs were refused by the generator: a pass would be vacuous", c.rejected, c.targets+c.rejected)
	}
	wall := time.Since(start).Seconds()
	cov := map[string]any{
		"evaluations":                   c.mapRuns + c.histRuns + c.procRuns + c.origins["example-committed"],
		"distinct_nontrivial":           len(c.distinctOutputs) + len(c.distinctHistories),
		"rule":                          "one evaluation = one comparison of a generator run with the clean-directory run of the same input: (a) generator with every map range behind the simmap seam under a chosen iteration-order seed (0 sorted, 1 reverse, n shuffles), (b) real generator after a seeded history script (gen, gen of an edited declaration = stale output, truncate at k bytes = killed earlier run, empty, delete, multi-file orders), (c) real generator re-run under GOMAXPROCS 1/2/4/16 (sampled, not controlled), (d) each checked-in example regenerated and compared with the committed file (exhaustive over the examples), (e) the same files named absolutely under another TMPDIR/TZ/locale, and invoked from the parent directory. distinct_nontrivial = distinct generated outputs (sha256) + distinct (origin, history op sequence) classes",
		"samples":                       c.samples,
		"exhaustive":                    false,
		"targets_accepted":              c.targets,
		"targets_refused_by_generator":  c.rejected,
		"targets_by_origin":             c.origins,
		"map_order_runs":                c.mapRuns,
		"map_iteration_sites_rewritten": e.mapSites,
		"history_runs":                  c.histRuns,
		"history_ops":                   c.histOps,
		"process_runs":                  c.procRuns,
		"generator_invocations":         c.cliRuns,
		"violation_signature_counts":    sigCounts,
		"known_findings_observed":       out.Known,
		"runs_per_hour":                 int(float64(c.cliRuns) / wall * 3600),
		"simulated_time":                "not applicable: the generator has no clock",
		"real_components":               []string{"kessoku CLI built from the working tree (all of parser, graph, generator, processor, go/packages, go list)", "the repository's testdata inputs and examples"},
		"stub_components":               []string{"map iteration order inside internal/kessoku, internal/pkg, internal/config: range-over-map rewritten to verifsim/simmap in a second scratch copy (go/types, go/packages and x/tools keep their own maps: covered only by the sampled re-runs)"},
		"toolchain":                     drv.GoVersion(),
	}
	code := out.Finish()
	drv.WriteEvidence(&drv.Evidence{PropertyID: "C11", Tier: tier, Seed: seed, Level: "exploration", Coverage: cov,
		Assumptions: []string{
			"clean and final runs use the same invocation (same files, same order)",
			"process-level randomness inside dependencies cannot be put behind a seam; it is sampled by repeated real runs",
			"histories contain only what earlier generator runs (possibly killed, possibly on an older version of the declaration) can leave in the directory",
		}, WallS: wall, Violations: len(out.New)})
	return code
}

// Replay re-executes a gensim replay file against the current tree.
func Replay(file string) int {
	raw, err := os.ReadFile(file)
	if err != nil {
		drv.Broken("%v", err)
	}
	var rf replayFile
	if err := json.Unmarshal(raw, &rf); err != nil {
		drv.Broken("bad replay file: %v", err)
	}
	e := prepare()
	c := &counters{histOps: map[string]int{}, distinctOutputs: map[string]struct{}{}, distinctHistories: map[string]struct{}{}, origins: map[string]int{}}
	if rf.Origin == "example-committed" {
		for _, f := range e.examplesFresh(c) {
			if f.sig == rf.Signature {
				fmt.Println("replay:", f.detail)
				fmt.Printf("VIOLATION property=C11 replay=%s\n", file)
				return drv.ExitViolation
			}
		}
		fmt.Println("replay: the violation does NOT reproduce on this tree")
		return drv.ExitOK
	}
	var t *target
	if rf.Spec != nil {
		dir := filepath.Join(e.Mod, "gen", rf.Spec.Pkg)
		_ = os.MkdirAll(dir, 0o755)
		for name, src := range rf.Spec.Files() {
			_ = os.WriteFile(filepath.Join(dir, name), []byte(src), 0o644)
		}
		t = &target{name: rf.Target, src: dir, files: rf.Files, origin: rf.Origin, spec: rf.Spec, wroot: filepath.Join(e.Mod, "w")}
	} else {
		for _, c := range e.targets(0, 0) {
			if c.name == rf.Target {
				t = c
			}
		}
	}
	if t == nil {
		drv.Broken("replay target %s not found in the working tree", rf.Target)
	}
	work := func(tag string) string {
		d := filepath.Join(t.wroot, "replay_"+tag, filepath.Base(t.src))
		copyDir(t.src, d)
		return d
	}
	d0 := work("clean")
	clean := e.generate(e.CLI, d0, t.files)
	_ = os.RemoveAll(filepath.Dir(d0))
	reproduced := false
	tries := 1
	if rf.Signature == "process_nondeterministic" {
		tries = 200
	}
	for i := 0; i < tries && !reproduced; i++ {
		d := work(fmt.Sprint("r", i))
		var g genResult
		switch {
		case len(rf.MapSeeds) > 0:
			g = e.generate(e.cliMap, d, t.files, fmt.Sprintf("VERIF_MAPSEED=%d", rf.MapSeeds[0]))
		case len(rf.History) > 0:
			for _, op := range rf.History {
				e.applyOp(d, t, op)
			}
			g = e.generate(e.CLI, d, t.files)
		case rf.Invocation > 0:
			g = e.invokeVariant(d, t, rf.Invocation-1)
		default:
			p := 1
			if len(rf.Procs) > 0 {
				p = rf.Procs[0]
			}
			g = e.generate(e.CLI, d, t.files, fmt.Sprintf("GOMAXPROCS=%d", p))
		}
		_ = os.RemoveAll(filepath.Dir(d))
		if g.code != clean.code || !sameOut(g.out, clean.out) {
			reproduced = true
			for k, v := range clean.out {
				if g.out[k] != v {
					fmt.Printf("replay: %s differs from the clean-directory output (exit %d vs %d)\n--- clean\n%s\n--- this run\n%s\n", k, clean.code, g.code, v, g.out[k])
				}
			}
			if g.code != 0 {
				fmt.Println("replay: generator said:", lastLine(g.stderr))
			}
		}
	}
	if !reproduced {
		fmt.Println("replay: the violation does NOT reproduce on this tree")
		return drv.ExitOK
	}
	fmt.Printf("replay: reproduced %s\nVIOLATION property=C11 replay=%s\n", rf.Signature, file)
	return drv.ExitViolation
}

var _ = bytes.Compare
