// Package enga drives engine A (bandsim): random declarations -> the real generator ->
// compile -> instrument -> one batch binary -> seeded simulation in 16 processes.
package enga

import (
	"encoding/json"
	"fmt"
	"os"
	"path/filepath"
	"regexp"
	"sort"
	"strings"
	"sync"
	"time"

	"verif/internal/drv"
	"verif/internal/instr"
	"verif/internal/progen"
	"verif/rt/harness"
)

type env struct {
	scratch string
	repo    string
	cli     string
	mod     string
	gomod   string
	soft    bool // best-effort mode (program minimisation): failures panic(softFail) instead of ending the check
}

type softFail string

// fail ends the check as BROKEN, or unwinds a best-effort step.
func (e *env) fail(format string, a ...any) {
	if e.soft {
		panic(softFail(fmt.Sprintf(format, a...)))
	}
	drv.Broken(format, a...)
}

// Env is what engine B reuses from this engine: scratch copy, real CLI, user module.
type Env struct {
	Scratch, Repo, CLI, Mod string
}

// PrepareEnv builds the scratch copy, the real generator and the user module.
func PrepareEnv() *Env {
	e := prepare()
	return &Env{Scratch: e.scratch, Repo: e.repo, CLI: e.cli, Mod: e.mod}
}

// prepare copies the working tree and builds the real generator from it.
func prepare() *env {
	e := &env{scratch: drv.Scratch("enga")}
	drv.UseGoCache(e.scratch)
	e.repo = filepath.Join(e.scratch, "repo")
	drv.CopyRepo(e.repo)
	e.cli = filepath.Join(e.scratch, "kessoku")
	r := drv.Run(e.repo, 10*time.Minute, nil, "go", "build", "-o", e.cli, "./cmd/kessoku")
	if r.Err != nil {
		drv.Broken("building cmd/kessoku from the working tree failed:\n%s", r.Out)
	}
	// the scratch module that holds runtime, generated user packages and the batch main
	e.mod = filepath.Join(e.scratch, "mod")
	for _, p := range []string{"rt/simrt", "rt/errgroup", "rt/harness", "internal/progen"} {
		drv.CopyTree(filepath.Join(drv.Root, p), filepath.Join(e.mod, p), nil)
	}
	repoMod, err := os.ReadFile(filepath.Join(e.repo, "go.mod"))
	if err != nil {
		drv.Broken("%v", err)
	}
	var req []string
	inReq := false
	for _, ln := range strings.Split(string(repoMod), "\n") {
		t := strings.TrimSpace(ln)
		switch {
		case strings.HasPrefix(t, "require ("):
			inReq = true
		case inReq && t == ")":
			inReq = false
		case inReq && t != "":
			req = append(req, "\t"+strings.TrimSuffix(strings.TrimSpace(strings.Split(t, "//")[0]), " ")+" // indirect")
		case strings.HasPrefix(t, "require ") && !strings.Contains(t, "("):
			req = append(req, "\t"+strings.TrimSpace(strings.Split(strings.TrimPrefix(t, "require "), "//")[0])+" // indirect")
		}
	}
	e.gomod = "module verif\n\ngo 1.24.0\n\nrequire github.com/mazrean/kessoku v0.0.0\n\nrequire (\n" + strings.Join(req, "\n") + "\n)\n\nreplace github.com/mazrean/kessoku => ../repo\n"
	if err := os.WriteFile(filepath.Join(e.mod, "go.mod"), []byte(e.gomod), 0o644); err != nil {
		drv.Broken("%v", err)
	}
	sum, _ := os.ReadFile(filepath.Join(e.repo, "go.sum"))
	_ = os.WriteFile(filepath.Join(e.mod, "go.sum"), sum, 0o644)
	return e
}

type prog struct {
	spec    *progen.Spec
	dir     string
	reject  string            // generator refused (whole program or some file)
	badBand map[string]string // band file -> first compile error
	live    []string
	bands   []string
}

type batchStats struct {
	Generated, Rejected, Accepted, NoLiveInjector int
	InjectorsDrawn, InjectorsLive                 int
	RejectReasons, CompileFailures                map[string]int
	GenWall, BuildWall, SimWall                   float64
}

var reBuildErr = regexp.MustCompile(`(?m)^((?:gen|sim)/([a-z]\d+)/([A-Za-z0-9_]+\.go)):(\d+):(?:\d+:)? (.*)$`)

func classifyCompileError(msg string) string {
	switch {
	case strings.Contains(msg, "declared and not used"):
		return "declared and not used"
	case strings.Contains(msg, "no new variables on left side"):
		return "no new variables on left side of :="
	case strings.Contains(msg, "undefined:"):
		return "undefined identifier"
	case strings.Contains(msg, "cannot use nil"):
		return "cannot use nil as non-nillable result"
	case strings.Contains(msg, "redeclared"):
		return "redeclared"
	case strings.Contains(msg, "imported and not used"):
		return "imported and not used"
	}
	if len(msg) > 50 {
		msg = msg[:50]
	}
	return msg
}

// buildBatch generates n programs, runs the real generator, compiles, instruments and builds the batch binary.
func (e *env) buildBatch(prop string, seed uint64, batch, n int, prof progen.Profile, fixed []*progen.Spec) ([]*prog, string, *batchStats) {
	st := &batchStats{RejectReasons: map[string]int{}, CompileFailures: map[string]int{}}
	t0 := time.Now()
	for _, d := range []string{"gen", "sim", "cmd"} {
		_ = os.RemoveAll(filepath.Join(e.mod, d))
	}
	var progs []*prog
	if fixed != nil {
		for _, sp := range fixed {
			progs = append(progs, &prog{spec: sp, badBand: map[string]string{}})
		}
	} else {
		for i := 0; i < n; i++ {
			r := progen.NewRand(seed, uint64(batch), uint64(i), hashProp(prop))
			sp := progen.Gen(r, fmt.Sprintf("p%04d", i), prof)
			progs = append(progs, &prog{spec: sp, badBand: map[string]string{}})
		}
	}
	st.Generated = len(progs)
	for _, p := range progs {
		p.dir = filepath.Join(e.mod, "gen", p.spec.Pkg)
		if err := os.MkdirAll(p.dir, 0o755); err != nil {
			e.fail("%v", err)
		}
		for name, src := range p.spec.Files() {
			if err := os.WriteFile(filepath.Join(p.dir, name), []byte(src), 0o644); err != nil {
				e.fail("%v", err)
			}
		}
		st.InjectorsDrawn += len(p.spec.Injectors)
	}
	// our own sources must compile before the generator is blamed for anything
	if r := drv.Run(e.mod, 10*time.Minute, nil, "go", "build", "./gen/..."); r.Err != nil {
		e.fail("progen produced packages that do not compile before generation (harness bug):\n%s", firstLines(string(r.Out), 30))
	}
	// the real generator, 16 processes side by side
	var mu sync.Mutex
	drv.Parallel(len(progs), drv.Workers(), func(i int) {
		p := progs[i]
		files := p.spec.DeclFiles()
		var invocations [][]string
		if p.spec.OneInvoke {
			invocations = [][]string{files}
		} else {
			for _, f := range files {
				invocations = append(invocations, []string{f})
			}
		}
		for _, inv := range invocations {
			r := drv.Run(p.dir, 5*time.Minute, nil, e.cli, append([]string{"-l", "error"}, inv...)...)
			if r.Code == -2 {
				drv.Broken("generator timed out on %s", p.dir) //nolint
			}
			if r.Code != 0 {
				mu.Lock()
				p.reject = lastLine(string(r.Out))
				mu.Unlock()
			}
		}
		for _, f := range files {
			band := strings.TrimSuffix(f, ".go") + "_band.go"
			if _, err := os.Stat(filepath.Join(p.dir, band)); err == nil {
				p.bands = append(p.bands, band)
			}
		}
	})
	st.GenWall = time.Since(t0).Seconds()
	t1 := time.Now()
	for _, p := range progs {
		if p.reject != "" {
			st.Rejected++
			st.RejectReasons[classifyReject(p.reject)]++
			// a refused file leaves no band; the other files of the program may still be fine
		}
	}
	// compile the untouched packages; drop band files that do not compile (C04 is not this engine's claim)
	for round := 0; round < 6; round++ {
		r := drv.Run(e.mod, 15*time.Minute, nil, "go", "build", "./gen/...")
		if r.Err == nil {
			break
		}
		ms := reBuildErr.FindAllStringSubmatch(string(r.Out), -1)
		if len(ms) == 0 {
			e.fail("go build of the generated packages failed in a way the driver cannot attribute (%v):\n%s", r.Err, firstLines(string(r.Out), 30))
		}
		removed := 0
		for _, m := range ms {
			pkg, file, msg := m[2], m[3], m[5]
			for _, p := range progs {
				if p.spec.Pkg != pkg {
					continue
				}
				if !strings.HasSuffix(file, "_band.go") {
					e.fail("compile error outside a generated file (harness bug): %s", m[0])
				}
				if _, seen := p.badBand[file]; !seen {
					p.badBand[file] = msg
					st.CompileFailures[classifyCompileError(msg)]++
					_ = os.Remove(filepath.Join(p.dir, file))
					removed++
				}
			}
		}
		if removed == 0 {
			e.fail("go build keeps failing:\n%s", firstLines(string(r.Out), 30))
		}
	}
	// instrumented copies
	var mainImports, mainCalls []string
	var jobProgs []*harness.Program
	for _, p := range progs {
		var good []string
		for _, b := range p.bands {
			if _, bad := p.badBand[b]; !bad {
				good = append(good, b)
			}
		}
		if len(good) == 0 {
			st.NoLiveInjector++
			continue
		}
		sim := filepath.Join(e.mod, "sim", p.spec.Pkg)
		_ = os.MkdirAll(sim, 0o755)
		for name, src := range p.spec.Files() {
			_ = os.WriteFile(filepath.Join(sim, name), []byte(src), 0o644)
		}
		for _, b := range good {
			src, err := os.ReadFile(filepath.Join(p.dir, b))
			if err != nil {
				e.fail("%v", err)
			}
			out, info, err := instr.File(b, src)
			if err != nil {
				e.fail("instrumenter: %s/%s: %v", p.spec.Pkg, b, err)
			}
			_ = os.WriteFile(filepath.Join(sim, b), out, 0o644)
			declared := map[string]bool{}
			for i := range p.spec.Injectors {
				declared[p.spec.Injectors[i].Name] = true
			}
			for _, fn := range info.Funcs {
				if declared[fn] {
					p.live = append(p.live, fn)
				}
			}
		}
		sort.Strings(p.live)
		if len(p.live) == 0 {
			st.NoLiveInjector++
			_ = os.RemoveAll(sim)
			continue
		}
		_ = os.WriteFile(filepath.Join(sim, "reg.go"), []byte(p.spec.RegFile(p.live)), 0o644)
		mainImports = append(mainImports, fmt.Sprintf("\t%s \"verif/sim/%s\"", p.spec.Pkg, p.spec.Pkg))
		mainCalls = append(mainCalls, fmt.Sprintf("\t%s.Register(r)", p.spec.Pkg))
		st.Accepted++
		st.InjectorsLive += len(p.live)
		jobProgs = append(jobProgs, &harness.Program{Spec: p.spec, Live: p.live})
	}
	if len(jobProgs) == 0 {
		e.fail("no generated program survived generation and compilation (rejected=%d, reasons=%v, compile failures=%v)", st.Rejected, st.RejectReasons, st.CompileFailures)
	}
	mainSrc := "package main\n\nimport (\n\t\"verif/rt/harness\"\n" + strings.Join(mainImports, "\n") + "\n)\n\nfunc main() {\n\tharness.Main(func(r *harness.Registry) {\n" + strings.Join(mainCalls, "\n") + "\n\t})\n}\n"
	_ = os.MkdirAll(filepath.Join(e.mod, "cmd", "batch"), 0o755)
	_ = os.WriteFile(filepath.Join(e.mod, "cmd", "batch", "main.go"), []byte(mainSrc), 0o644)
	bin := filepath.Join(e.scratch, fmt.Sprintf("batch-%s-%d", prop, batch))
	if r := drv.Run(e.mod, 20*time.Minute, nil, "go", "build", "-o", bin, "./cmd/batch"); r.Err != nil {
		e.fail("building the instrumented batch failed (instrumenter or runtime bug, never a violation):\n%s", firstLines(string(r.Out), 40))
	}
	st.BuildWall = time.Since(t1).Seconds()
	// keep only what run() needs
	jp, _ := json.Marshal(jobProgs)
	_ = os.WriteFile(bin+".programs.json", jp, 0o644)
	return progs, bin, st
}

func hashProp(p string) uint64 {
	var h uint64 = 1469598103934665603
	for _, c := range []byte(p) {
		h = (h ^ uint64(c)) * 1099511628211
	}
	return h
}

func classifyReject(msg string) string {
	for _, k := range []string{"multiple providers provide", "dependency cycle", "no provider for struct type", "no return value provider", "no initial pools found", "unsupported type"} {
		if strings.Contains(msg, k) {
			return k
		}
	}
	if len(msg) > 60 {
		msg = msg[:60]
	}
	return msg
}

func firstLines(s string, n int) string {
	ls := strings.Split(s, "\n")
	if len(ls) > n {
		ls = ls[:n]
	}
	return strings.Join(ls, "\n")
}

func lastLine(s string) string {
	ls := strings.Split(strings.TrimSpace(s), "\n")
	return ls[len(ls)-1]
}

// run executes the batch binary in 16 processes and merges their outputs.
func (e *env) run(bin string, job harness.Job) []*harness.Output {
	raw, err := os.ReadFile(bin + ".programs.json")
	if err != nil {
		drv.Broken("%v", err)
	}
	if err := json.Unmarshal(raw, &job.Programs); err != nil {
		drv.Broken("%v", err)
	}
	w := drv.Workers()
	if job.Replay != nil {
		w = 1
	}
	job.Shards = w
	outs := make([]*harness.Output, w)
	fails := make([]string, w)
	drv.Parallel(w, w, func(i int) {
		j := job
		j.Shard = i
		jf := fmt.Sprintf("%s.job%d.json", bin, i)
		of := fmt.Sprintf("%s.out%d.json", bin, i)
		b, _ := json.Marshal(j)
		_ = os.WriteFile(jf, b, 0o644)
		gmp := "GOMAXPROCS=2"
		if v := os.Getenv("VERIF_BATCH_GOMAXPROCS"); v != "" {
			gmp = "GOMAXPROCS=" + v
		}
		r := drv.Run(e.scratch, 6*time.Hour, []string{gmp}, bin, jf, of)
		data, rerr := os.ReadFile(of)
		if rerr != nil {
			fails[i] = fmt.Sprintf("shard %d produced no output: %v\n%s", i, r.Err, firstLines(string(r.Out), 30))
			return
		}
		var o harness.Output
		if err := json.Unmarshal(data, &o); err != nil {
			fails[i] = err.Error()
			return
		}
		if len(o.Harness) > 0 {
			fails[i] = fmt.Sprintf("shard %d: simulator inconsistency: %s", i, strings.Join(o.Harness, "; "))
			return
		}
		if r.Err != nil {
			fails[i] = fmt.Sprintf("shard %d: %v\n%s", i, r.Err, firstLines(string(r.Out), 30))
			return
		}
		outs[i] = &o
		_ = os.Remove(jf)
		_ = os.Remove(of)
	})
	for _, f := range fails {
		if f != "" {
			e.fail("batch %s", f)
		}
	}
	return outs
}
