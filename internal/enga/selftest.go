package enga

import (
	"encoding/json"
	"fmt"
	"os"
	"reflect"
	"sort"
	"time"

	"verif/internal/drv"
	"verif/internal/progen"
	"verif/rt/harness"
)

// SelfTest proves determinism of engine A on a sample: every (property, seed) batch is
// executed in fresh processes at GOMAXPROCS 1, 4 and 16, twice each, and everything the
// processes report (counters, probes, signature counts, the set of event-log hashes)
// must be identical. It also renders every program twice and compares the sources.
func SelfTest(seeds int) (int, map[string]any) {
	e := prepare()
	info := map[string]any{}
	execs, progs := 0, 0
	for _, prop := range []string{"C01", "C05", "C06", "C07", "C08"} {
		cfg := cfgs[prop]
		for s := 0; s < seeds; s++ {
			seed := uint64(1000 + s)
			// program generation is a pure function of the seed
			for i := 0; i < 25; i++ {
				a := progen.Gen(progen.NewRand(seed, 0, uint64(i), hashProp(prop)), "p", cfg.prof)
				b := progen.Gen(progen.NewRand(seed, 0, uint64(i), hashProp(prop)), "p", cfg.prof)
				ja, _ := json.Marshal(a)
				jb, _ := json.Marshal(b)
				if string(ja) != string(jb) || !reflect.DeepEqual(a.Files(), b.Files()) {
					drv.Broken("selftest: progen is not deterministic (property %s seed %d program %d)", prop, seed, i)
				}
				progs++
			}
			_, bin, _ := e.buildBatch(prop, seed, 0, 25, cfg.prof, nil)
			var ref string
			for _, procs := range []int{1, 4, 16, 1, 4, 16} {
				os.Setenv("VERIF_BATCH_GOMAXPROCS", fmt.Sprint(procs))
				outs := e.run(bin, harness.Job{Property: prop, Tier: "quick", Seed: seed, Batch: 0, Runs: 8})
				execs++
				got := fingerprint(outs)
				if ref == "" {
					ref = got
				} else if got != ref {
					_ = os.WriteFile(drv.Root+"/replays/selftest-diff.txt", []byte(ref+"\n----\n"+got+"\n"), 0o644)
					drv.Broken("selftest: engine A run of %s seed %d differs between executions (GOMAXPROCS=%d); see replays/selftest-diff.txt", prop, seed, procs)
				}
			}
			os.Unsetenv("VERIF_BATCH_GOMAXPROCS")
			_ = os.Remove(bin)
		}
	}
	info["engine_A_executions_compared"] = execs
	info["engine_A_program_renderings_compared"] = progs
	return execs, info
}

func fingerprint(outs []*harness.Output) string {
	type fp struct {
		Runs, Judged, Scenarios, Injectors int
		Steps, SimTime                     int64
		Faults, Probes, Sigs, Skipped      map[string]int
		Hashes                             []string
		N                                  int
		Viol                               []string
	}
	f := fp{Faults: map[string]int{}, Probes: map[string]int{}, Sigs: map[string]int{}, Skipped: map[string]int{}}
	for _, o := range outs {
		f.Runs += o.Runs
		f.Judged += o.Judged
		f.Scenarios += o.Scenarios
		f.Injectors += o.Injectors
		f.Steps += o.Steps
		f.SimTime += o.SimTimeNs
		f.N += o.InterleavingsN
		merge(f.Faults, o.Faults)
		merge(f.Probes, o.Probes)
		merge(f.Sigs, o.SigCounts)
		merge(f.Skipped, o.Skipped)
		f.Hashes = append(f.Hashes, o.Interleavings...)
		for _, v := range o.Violations {
			d, _ := json.Marshal(v.Case)
			f.Viol = append(f.Viol, v.Signature+"|"+v.LogHash+"|"+string(d))
		}
	}
	sort.Strings(f.Hashes)
	sort.Strings(f.Viol)
	b, _ := json.MarshalIndent(f, "", " ")
	return string(b)
}

var _ = time.Now

// Conformance runs the errgroup/context stub conformance scripts inside a scratch module.
func Conformance(n int) string {
	e := prepare()
	drv.CopyTree(drv.Root+"/rt/conform", e.mod+"/cmd/conform", nil)
	bin := e.scratch + "/conform"
	if r := drv.Run(e.mod, 10*time.Minute, nil, "go", "build", "-tags", "verifscratch", "-o", bin, "./cmd/conform"); r.Err != nil {
		drv.Broken("building the conformance program failed:\n%s", r.Out)
	}
	r := drv.Run(e.scratch, 10*time.Minute, nil, bin, fmt.Sprint(n))
	if r.Err != nil {
		drv.Broken("errgroup/context stub does not conform to the real packages:\n%s", r.Out)
	}
	return string(r.Out)
}
