package enga

import (
	"encoding/json"
	"fmt"
	"os"
	"sort"
	"strings"
	"time"

	"verif/internal/drv"
	"verif/internal/progen"
	"verif/rt/harness"
)

type propCfg struct {
	prof          progen.Profile
	quickProgs    int
	quickRuns     int
	thoroughProgs int // per batch
	thoroughBatch int
	thoroughRuns  int
	level         string
	rule          string
	assume        []string
}

var cfgs = map[string]propCfg{
	"C01": {prof: progen.Profile{Name: "C01", Families: true, NoFallible: false, RiskyShapes: 60}, quickProgs: 400, quickRuns: 200, thoroughProgs: 600, thoroughBatch: 10, thoroughRuns: 1500,
		rule: "one evaluation = one seeded schedule (strategy x PRNG x simulated provider latencies) of one generated injector - fault-free, under a provider-failure plan, or cancelled at a sampled step; oracle at every provider entry: producers have returned, received terms equal the producers' terms, vector-clock race detector silent, no panic. distinct = distinct event-log hashes (thread, kind, detail sequences); non-trivial = the run had at least one goroutine"},
	"C02": {prof: progen.Profile{Name: "C02", Families: true, RiskyShapes: 60}, quickProgs: 400, quickRuns: 40, thoroughProgs: 600, thoroughBatch: 10, thoroughRuns: 300,
		rule: "one evaluation = one seeded schedule of one generated injector, fault-free; the returned term (the whole evaluation tree), the multiset of provider invocations and every provider's received argument terms are compared with a sequential reference interpreter of the declaration; families = the same DAG rendered with different Async subsets, Set groupings and declaration orders must yield the same term. distinct = distinct event-log hashes"},
	"C03": {prof: progen.Profile{Name: "C03", Families: true, NoFallible: false, RiskyShapes: 60}, quickProgs: 400, quickRuns: 200, thoroughProgs: 600, thoroughBatch: 10, thoroughRuns: 1500,
		rule: "one evaluation = one seeded schedule, fault-free, no cancellation; the run must reach the injector's return (quiescence before = deadlock), never close a closed/nil channel, and have every started thread exited at the return event. distinct = distinct event-log hashes"},
	"C05": {prof: progen.Profile{Name: "C05", Families: true, MinAsyncFree: 1, WantAsync: true, RiskyShapes: 30}, quickProgs: 400, quickRuns: 36, thoroughProgs: 600, thoroughBatch: 10, thoroughRuns: 120,
		rule: "one evaluation = one run under the stall adversary: every Async provider parks inside its function and is released only at global quiescence; all needed input-free Async providers must be inside at that point (that execution is the witness the property asks for). Programs have >= 1 input-free Async provider and >= 2 Async providers. distinct = distinct event-log hashes"},
	"C06": {prof: progen.Profile{Name: "C06", Families: true, WantFallible: true, RiskyShapes: 30}, quickProgs: 400, quickRuns: 60, thoroughProgs: 600, thoroughBatch: 10, thoroughRuns: 400,
		rule: "one evaluation = one seeded schedule under one failure plan: every needed fallible provider failing alone (enumerated), random pairs/triples, all; unneeded fallible providers set to fail too; select branches forced both ways when both are ready. Oracle: non-nil error, errors.Is one of the failures that occurred before the return (unless the caller cancelled), no dependent of a failed provider ever entered, the injector returns. distinct = distinct event-log hashes of runs in which a provider really failed"},
	"C07": {prof: progen.Profile{Name: "C07", Families: true, WantAsync: true, RiskyShapes: 30, CtxOdds: 4}, quickProgs: 400, quickRuns: 30, thoroughProgs: 600, thoroughBatch: 8, thoroughRuns: 120,
		rule: "one evaluation = one seeded schedule with a caller cancellation: for fault-free base schedules of length L the caller context is cancelled at EVERY scheduler step 0..L (0 = before the call; prefix replays the base, suffix seeded), plus cancellation/deadline at simulated times against provider latencies and context-aware providers. Oracle: the injector returns; without an error it returns the reference term. distinct = distinct event-log hashes of runs in which the cancellation struck before the return"},
	"C08": {prof: progen.Profile{Name: "C08", Families: true, WantAsync: true, RiskyShapes: 30, CtxOdds: 3}, quickProgs: 400, quickRuns: 30, thoroughProgs: 600, thoroughBatch: 8, thoroughRuns: 120,
		rule: "one evaluation = one seeded schedule under a fault-free, provider-failure, cancellation or failure+cancellation plan; after the injector's return event the caller does nothing more and the simulation continues to quiescence; any thread not exited then is a leak. distinct = distinct event-log hashes"},
}

func init() {
	common := []string{
		"errgroup and context are simulator re-implementations (conformance-tested against x/sync v0.19.0 and package context by vc selftest)",
		"programs whose generated file does not compile, or that the generator rejects, are skipped and counted (C04/C09 are not claimed by this engine)",
		"sampling over programs (mostly <= 12 function providers, some with 20-40 providers, 17-24 parallel services or a constructor of 64+ parameters; <= 6 injectors per package) and schedules; not a proof",
	}
	for k, c := range cfgs {
		c.level = "exploration"
		c.assume = common
		cfgs[k] = c
	}
}

type totals struct {
	out        harness.Output
	hashes     map[string]struct{}
	hashesN    int
	st         batchStats
	batches    int
	violations []harness.Violation
}

func (t *totals) add(outs []*harness.Output, st *batchStats) {
	t.batches++
	t.st.Generated += st.Generated
	t.st.Rejected += st.Rejected
	t.st.Accepted += st.Accepted
	t.st.NoLiveInjector += st.NoLiveInjector
	t.st.InjectorsDrawn += st.InjectorsDrawn
	t.st.InjectorsLive += st.InjectorsLive
	t.st.GenWall += st.GenWall
	t.st.BuildWall += st.BuildWall
	for k, v := range st.RejectReasons {
		t.st.RejectReasons[k] += v
	}
	for k, v := range st.CompileFailures {
		t.st.CompileFailures[k] += v
	}
	for _, o := range outs {
		t.out.Programs += o.Programs
		t.out.Injectors += o.Injectors
		t.out.Scenarios += o.Scenarios
		t.out.Runs += o.Runs
		t.out.Judged += o.Judged
		t.out.SimTimeNs += o.SimTimeNs
		t.out.Steps += o.Steps
		t.out.NontrivialProgs += o.NontrivialProgs
		t.hashesN += o.InterleavingsN
		if o.MaxThreads > t.out.MaxThreads {
			t.out.MaxThreads = o.MaxThreads
		}
		if o.WallS > t.out.WallS {
			t.out.WallS = o.WallS
		}
		for _, h := range o.Interleavings {
			t.hashes[h] = struct{}{}
		}
		merge(t.out.Faults, o.Faults)
		merge(t.out.Probes, o.Probes)
		merge(t.out.Shapes, o.Shapes)
		merge(t.out.Skipped, o.Skipped)
		merge(t.out.SigCounts, o.SigCounts)
		if len(t.out.Samples) < 3 {
			t.out.Samples = append(t.out.Samples, o.Samples...)
		}
		t.violations = append(t.violations, o.Violations...)
	}
}

func merge(dst, src map[string]int) {
	for k, v := range src {
		dst[k] += v
	}
}

func newTotals() *totals {
	return &totals{hashes: map[string]struct{}{}, out: harness.Output{Faults: map[string]int{}, Probes: map[string]int{}, Shapes: map[string]int{}, Skipped: map[string]int{}, SigCounts: map[string]int{}},
		st: batchStats{RejectReasons: map[string]int{}, CompileFailures: map[string]int{}}}
}

type replayFile struct {
	Engine    string            `json:"engine"`
	Property  string            `json:"property"`
	Signature string            `json:"signature"`
	Detail    string            `json:"detail"`
	Case      harness.Case      `json:"case"`
	LogHash   string            `json:"log_hash"`
	Spec      *progen.Spec      `json:"spec"`
	Sources   map[string]string `json:"sources"`   // declaration as rendered (for the reader)
	Generated map[string]string `json:"generated"` // what the generator emitted when the violation was found (for the reader)
	Events    []string          `json:"events"`
	Minimised string            `json:"minimised,omitempty"`
}

// Run is the quick / thorough command of one engine-A property.
func Run(prop, tier string) int {
	cfg, ok := cfgs[prop]
	if !ok {
		drv.Broken("engine A has no property %s", prop)
	}
	start := time.Now()
	seed := drv.Seed()
	fmt.Printf("%s %s VERIF_SEED=%d\n", prop, tier, seed)
	e := prepare()
	nprog, runs, batches := cfg.quickProgs, cfg.quickRuns, 1
	if tier == "thorough" {
		nprog, runs, batches = cfg.thoroughProgs, cfg.thoroughRuns, cfg.thoroughBatch
	}
	if v := os.Getenv("VERIF_PROGRAMS"); v != "" {
		fmt.Sscan(v, &nprog)
	}
	if v := os.Getenv("VERIF_BATCHES"); v != "" {
		fmt.Sscan(v, &batches)
	}
	tot := newTotals()
	out := drv.NewOutcome(prop)
	for b := 0; b < batches; b++ {
		progs, bin, st := e.buildBatch(prop, seed, b, nprog, cfg.prof, nil)
		t0 := time.Now()
		outs := e.run(bin, harness.Job{Property: prop, Tier: tier, Seed: seed, Batch: b, Runs: runs})
		st.SimWall = time.Since(t0).Seconds()
		tot.st.SimWall += st.SimWall
		nv := len(tot.violations)
		tot.add(outs, st)
		// confirm, and file, this batch's violations while its binary still exists
		bySig := map[string]bool{}
		for _, v := range tot.violations[nv:] {
			if bySig[v.Signature] {
				continue
			}
			bySig[v.Signature] = true
			if !e.confirm(bin, prop, v) {
				drv.Broken("violation %s (%s.%s) does not reproduce from its recorded plan in a fresh process: the simulation is not deterministic", v.Signature, v.Case.Pkg, v.Case.Injector)
			}
			var sp *progen.Spec
			var pdir string
			for _, p := range progs {
				if p.spec.Pkg == v.Case.Pkg {
					sp, pdir = p.spec, p.dir
				}
			}
			generated := map[string]string{}
			for _, f := range sp.DeclFiles() {
				band := strings.TrimSuffix(f, ".go") + "_band.go"
				if b, err := os.ReadFile(pdir + "/" + band); err == nil {
					generated[band] = string(b)
				}
			}
			known := false
			for _, f := range out.Findings {
				if f.Sig == v.Signature {
					known = true
				}
			}
			minNote := ""
			if !known && os.Getenv("VERIF_NO_PROGRAM_MIN") == "" {
				before := len(sp.Injectors[0].Flatten())
				for i := range sp.Injectors {
					if sp.Injectors[i].Name == v.Case.Injector {
						before = len(sp.Injectors[i].Flatten())
					}
				}
				if msp, mv, builds := e.minimiseProgram(prop, seed, runs, sp, v); msp != nil && mv != nil {
					minNote = fmt.Sprintf("declaration minimised from %d to %d provider expressions in %d rebuilds", before, usesOf(msp), builds)
					sp, v = msp, *mv
					generated = map[string]string{"(regenerate with ./vc replay)": "the minimised declaration is regenerated by the replay command"}
				}
			}
			rf := replayFile{Engine: "bandsim", Property: prop, Signature: v.Signature, Detail: v.Detail, Case: v.Case, LogHash: v.LogHash, Spec: sp, Sources: map[string]string{}, Generated: map[string]string{}}
			for name, src := range sp.Files() {
				if strings.HasPrefix(name, "k") {
					rf.Sources[name] = src
				}
			}
			rf.Generated = generated
			rf.Minimised = minNote
			for _, ev := range v.Events {
				rf.Events = append(rf.Events, fmt.Sprintf("%d t=%dns thread%d %s %s", ev.Seq, ev.Time, ev.Thread, ev.Kind, ev.Detail))
			}
			raw, _ := json.MarshalIndent(rf, "", " ")
			out.Add(drv.Violation{Property: prop, Signature: v.Signature, Detail: fmt.Sprintf("%s.%s [%s]: %s", v.Case.Pkg, v.Case.Injector, v.Case.Scenario, v.Detail), Replay: raw, Count: 0})
		}
		_ = os.Remove(bin)
	}
	// counts per signature from all shards (Add above only saw the first of each)
	for sig, n := range tot.out.SigCounts {
		isKnown := false
		for _, f := range out.Findings {
			if f.Sig == sig {
				out.Known[sig] = n
				isKnown = true
			}
		}
		if !isKnown {
			for i := range out.New {
				if out.New[i].Signature == sig {
					out.New[i].Count = n
				}
			}
		}
	}
	skipped := tot.st.Generated - tot.st.Accepted
	if tot.st.Generated > 0 && skipped*100 > tot.st.Generated*40 {
		drv.Broken("%d of %d generated programs were unusable (rejected %v, compile failures %v): a pass would be vacuous", skipped, tot.st.Generated, tot.st.RejectReasons, tot.st.CompileFailures)
	}
	if tot.out.Runs == 0 || tot.out.Judged == 0 {
		drv.Broken("vacuous run: runs=%d judged=%d", tot.out.Runs, tot.out.Judged)
	}
	wall := time.Since(start).Seconds()
	distinct := tot.hashesN
	cov := map[string]any{
		"evaluations":              tot.out.Runs,
		"distinct_nontrivial":      distinct,
		"rule":                     cfg.rule + ". distinct_nontrivial is the sum over the 16 worker processes of their distinct event-log hashes (each process simulates a disjoint slice of the programs, so no hash is counted twice)",
		"samples":                  tot.out.Samples,
		"exhaustive":               false,
		"programs_generated":       tot.st.Generated,
		"programs_simulated":       tot.out.Programs,
		"programs_with_goroutines": tot.out.NontrivialProgs,
		"injectors_drawn":          tot.st.InjectorsDrawn,
		"injectors_simulated":      tot.out.Injectors,
		"scenarios":                tot.out.Scenarios,
		"runs_with_effective_fault_or_oracle_applied": tot.out.Judged,
		"fault_kinds_effective":                       tot.out.Faults,
		"reach_probes":                                tot.out.Probes,
		"program_shapes":                              tot.out.Shapes,
		"skipped":                                     map[string]any{"generator_rejected_a_file": tot.st.Rejected, "reject_reasons": tot.st.RejectReasons, "generated_file_does_not_compile_by_cause": tot.st.CompileFailures, "programs_without_live_injector": tot.st.NoLiveInjector, "in_harness": tot.out.Skipped},
		"simulated_time_s":                            float64(tot.out.SimTimeNs) / 1e9,
		"scheduler_steps":                             tot.out.Steps,
		"max_threads_in_a_run":                        tot.out.MaxThreads,
		"runs_per_hour":                               int(float64(tot.out.Runs) / wall * 3600),
		"seeds_per_hour":                              "one VERIF_SEED per invocation; every (program, injector, scenario, run) derives its own PRNG stream from it",
		"violation_signature_counts":                  tot.out.SigCounts,
		"known_findings_observed":                     out.Known,
		"real_components":                             []string{"kessoku parser/graph/generator (CLI built from the working tree)", "generated injector source compiled by the Go compiler: real channels, select, close, closures, goroutines", "annotation.go wrappers (Provide/Async/Bind/Value/Struct .Fn())"},
		"stub_components":                             []string{"golang.org/x/sync/errgroup -> verif/rt/errgroup on simulator threads", "context.Context -> simulator-owned implementation", "provider bodies (generated workload calling simrt.Call)"},
		"inserted":                                    "yield hooks before receive/select/close, Reads/Writes race hooks around calls, assignments and returns (scratch copy only)",
		"toolchain":                                   drv.GoVersion(),
		"wall_breakdown_s":                            map[string]float64{"generate": tot.st.GenWall, "compile_instrument_build": tot.st.BuildWall, "simulate": tot.st.SimWall},
		"batches":                                     tot.batches,
	}
	code := out.Finish()
	drv.WriteEvidence(&drv.Evidence{PropertyID: prop, Tier: tier, Seed: seed, Level: cfg.level, Coverage: cov, Assumptions: cfg.assume, WallS: wall, Violations: len(out.New)})
	return code
}

// confirm replays a violation in a fresh process of the same binary.
func (e *env) confirm(bin, prop string, v harness.Violation) bool {
	c := v.Case
	outs := e.run(bin, harness.Job{Property: prop, Replay: &c})
	for _, rv := range outs[0].Violations {
		if rv.Signature == v.Signature && rv.LogHash == v.LogHash {
			return true
		}
	}
	var got []string
	for _, rv := range outs[0].Violations {
		got = append(got, rv.Signature+"/"+rv.LogHash)
	}
	fmt.Fprintf(os.Stderr, "confirm: expected %s/%s, got %v\n", v.Signature, v.LogHash, got)
	return false
}

// Replay regenerates the program of a replay file with the current generator and re-executes the recorded plan.
func Replay(file string) int {
	raw, err := os.ReadFile(file)
	if err != nil {
		drv.Broken("%v", err)
	}
	var rf replayFile
	if err := json.Unmarshal(raw, &rf); err != nil || rf.Spec == nil {
		drv.Broken("bad replay file %s: %v", file, err)
	}
	e := prepare()
	progs, bin, st := e.buildBatch(rf.Property, 0, 0, 1, progen.Profile{}, []*progen.Spec{rf.Spec})
	_ = progs
	if st.Accepted == 0 {
		fmt.Printf("replay: the generator no longer produces a compilable injector for this declaration (rejected=%v compile=%v)\n", st.RejectReasons, st.CompileFailures)
		return drv.ExitOK
	}
	c := rf.Case
	outs := e.run(bin, harness.Job{Property: rf.Property, Replay: &c})
	o := outs[0]
	var sigs []string
	same, sameHash := false, false
	for _, v := range o.Violations {
		sigs = append(sigs, v.Signature)
		if v.Signature == rf.Signature {
			same = true
			sameHash = v.LogHash == rf.LogHash
			for _, ev := range v.Events {
				fmt.Printf("  %3d t=%dns thread%d %-8s %s\n", ev.Seq, ev.Time, ev.Thread, ev.Kind, ev.Detail)
			}
			fmt.Printf("replay: %s\n", v.Detail)
		}
	}
	sort.Strings(sigs)
	fmt.Printf("replay: property=%s recorded signature=%q log_hash=%s; now: signatures=%v\n", rf.Property, rf.Signature, rf.LogHash, sigs)
	if !same {
		if len(o.Violations) > 0 {
			fmt.Println("replay: the recorded violation does not reproduce, but the same plan violates the property differently on this tree")
			fmt.Printf("VIOLATION property=%s replay=%s\n", rf.Property, file)
			return drv.ExitViolation
		}
		fmt.Println("replay: the violation does NOT reproduce on this tree")
		return drv.ExitOK
	}
	if !sameHash {
		fmt.Println("replay: same violation, different event log (the generated code changed since the file was recorded)")
	} else {
		fmt.Println("replay: reproduced exactly (same signature, same event-log hash)")
	}
	fmt.Printf("VIOLATION property=%s replay=%s\n", rf.Property, file)
	return drv.ExitViolation
}
