package enga

import (
	"encoding/json"
	"fmt"
	"os"
	"sort"

	"verif/internal/progen"
	"verif/rt/harness"
)

// Program minimisation: once the batch process has minimised the fault plan and the schedule
// of a violation, the driver shrinks the *declaration*: keep only the violating injector,
// flatten its Sets, then repeatedly try every single-step reduction (drop a provider, make
// one synchronous, make one infallible, drop a Bind), regenerate with the real generator,
// recompile, re-explore, and keep the smallest candidate that still shows the same
// signature. Bounded: <= 8 rounds of <= 24 candidates, one build per round.

func cloneSpec(sp *progen.Spec) *progen.Spec {
	b, _ := json.Marshal(sp)
	var c progen.Spec
	_ = json.Unmarshal(b, &c)
	return &c
}

func restrict(sp *progen.Spec, inj string) *progen.Spec {
	c := cloneSpec(sp)
	var keep []progen.Injector
	for i := range c.Injectors {
		if c.Injectors[i].Name == inj {
			in := c.Injectors[i]
			in.File = 0
			var items []progen.Item
			for _, u := range in.Flatten() {
				uu := *u
				items = append(items, progen.Item{Use: &uu})
			}
			in.Items = items
			keep = append(keep, in)
		}
	}
	c.Injectors = keep
	c.NFiles = 1
	c.OneInvoke = false
	return c
}

func usesOf(sp *progen.Spec) int {
	if len(sp.Injectors) == 0 {
		return 0
	}
	return len(sp.Injectors[0].Items)
}

// reductions lists every single-step reduction of the (restricted, flattened) program.
func reductions(sp *progen.Spec) []*progen.Spec {
	var out []*progen.Spec
	n := usesOf(sp)
	for i := 0; i < n; i++ {
		c := cloneSpec(sp)
		it := c.Injectors[0].Items
		c.Injectors[0].Items = append(append([]progen.Item{}, it[:i]...), it[i+1:]...)
		out = append(out, c)
	}
	for i := 0; i < n; i++ {
		u := sp.Injectors[0].Items[i].Use
		if u.Async {
			c := cloneSpec(sp)
			c.Injectors[0].Items[i].Use.Async = false
			out = append(out, c)
		}
		if len(u.Bind) > 0 {
			c := cloneSpec(sp)
			c.Injectors[0].Items[i].Use.Bind = nil
			out = append(out, c)
		}
		if sp.Providers[u.Prov].Fallible {
			c := cloneSpec(sp)
			c.Providers[u.Prov].Fallible = false
			out = append(out, c)
		}
	}
	var valid []*progen.Spec
	for _, c := range out {
		if progen.Evaluate(c, &c.Injectors[0], "m").Invalid == "" {
			valid = append(valid, c)
		}
	}
	return valid
}

// minimiseProgram returns a smaller program that shows the same signature, with the violation found on it.
func (e *env) minimiseProgram(prop string, seed uint64, runs int, sp *progen.Spec, v harness.Violation) (*progen.Spec, *harness.Violation, int) {
	builds := 0
	try := func(cands []*progen.Spec) (hit map[string]*harness.Violation) {
		hit = map[string]*harness.Violation{}
		defer func() {
			if r := recover(); r != nil {
				if _, ok := r.(softFail); !ok {
					panic(r)
				}
			}
		}()
		for i, c := range cands {
			c.Pkg = fmt.Sprintf("m%03d", i)
		}
		_, bin, st := e.buildBatch(prop, seed, 9000+builds, len(cands), progen.Profile{}, cands)
		builds++
		_ = st
		outs := e.run(bin, harness.Job{Property: prop, Tier: "quick", Seed: seed, Batch: 9000 + builds, Runs: runs})
		_ = os.Remove(bin)
		_ = os.Remove(bin + ".programs.json")
		for _, o := range outs {
			for i := range o.Violations {
				w := o.Violations[i]
				if w.Signature == v.Signature && hit[w.Case.Pkg] == nil {
					hit[w.Case.Pkg] = &w
				}
			}
		}
		return hit
	}
	// minimisation is best effort: any trouble keeps what has been reached so far
	e.soft = true
	defer func() { e.soft = false }()
	cur := restrict(sp, v.Case.Injector)
	hit := try([]*progen.Spec{cur})
	best := hit[cur.Pkg]
	if best == nil {
		return nil, nil, builds
	}
	for round := 0; round < 8; round++ {
		cands := reductions(cur)
		if len(cands) == 0 {
			break
		}
		sort.SliceStable(cands, func(i, j int) bool { return usesOf(cands[i]) < usesOf(cands[j]) })
		if len(cands) > 24 {
			cands = cands[:24]
		}
		hit := try(cands)
		var next *progen.Spec
		for _, c := range cands {
			if hit[c.Pkg] != nil {
				next = c
				best = hit[c.Pkg]
				break
			}
		}
		if next == nil {
			break
		}
		cur = next
	}
	// the minimised case must replay exactly in a fresh process, like every reported violation
	ok := false
	func() {
		defer func() {
			if r := recover(); r != nil {
				if _, soft := r.(softFail); !soft {
					panic(r)
				}
			}
		}()
		cur.Pkg = best.Case.Pkg
		_, bin, _ := e.buildBatch(prop, seed, 9900, 1, progen.Profile{}, []*progen.Spec{cur})
		builds++
		ok = e.confirm(bin, prop, *best)
		_ = os.Remove(bin)
		_ = os.Remove(bin + ".programs.json")
	}()
	if !ok {
		return nil, nil, builds
	}
	return cur, best, builds
}
