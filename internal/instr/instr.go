// Package instr inserts the simulator's yield and race hooks into a scratch copy of a
// generated *_band.go file. It only inserts statements and wraps select operands;
// every original statement stays where it was.
package instr

import (
	"bytes"
	"fmt"
	"go/ast"
	"go/format"
	"go/parser"
	"go/token"
	"strconv"
)

const (
	errgroupReal = "golang.org/x/sync/errgroup"
	errgroupSim  = "verif/rt/errgroup"
	simrtPath    = "verif/rt/simrt"
)

type Info struct {
	Funcs      []string // top-level functions in the file (the injectors)
	Goroutines int      // eg.Go / go statements seen
	Selects    int
	Recvs      int
	Closes     int
}

type rewriter struct {
	fset   *token.FileSet
	n      int
	info   Info
	egName string
	err    error
	fn     string
}

// File instruments the source of one generated file.
func File(filename string, src []byte) ([]byte, *Info, error) {
	fset := token.NewFileSet()
	f, err := parser.ParseFile(fset, filename, src, parser.ParseComments)
	if err != nil {
		return nil, nil, fmt.Errorf("parse generated file: %w", err)
	}
	rw := &rewriter{fset: fset, egName: "errgroup"}
	for _, imp := range f.Imports {
		p, _ := strconv.Unquote(imp.Path.Value)
		if p == errgroupReal {
			imp.Path.Value = strconv.Quote(errgroupSim)
			if imp.Name != nil {
				rw.egName = imp.Name.Name
			}
		}
		if p == "sync" || p == "sync/atomic" || p == "time" {
			return nil, nil, fmt.Errorf("generated file imports %q: a synchronisation primitive the simulator does not understand", p)
		}
	}
	// add the simrt import
	spec := &ast.ImportSpec{Name: ast.NewIdent("simrt"), Path: &ast.BasicLit{Kind: token.STRING, Value: strconv.Quote(simrtPath)}}
	added := false
	for _, d := range f.Decls {
		if gd, ok := d.(*ast.GenDecl); ok && gd.Tok == token.IMPORT {
			gd.Specs = append(gd.Specs, spec)
			if !gd.Lparen.IsValid() {
				gd.Lparen = gd.Pos()
				gd.Rparen = gd.End()
			}
			added = true
			break
		}
	}
	if !added {
		f.Decls = append([]ast.Decl{&ast.GenDecl{Tok: token.IMPORT, Specs: []ast.Spec{spec}}}, f.Decls...)
	}
	f.Imports = append(f.Imports, spec)
	for _, d := range f.Decls {
		fd, ok := d.(*ast.FuncDecl)
		if !ok || fd.Body == nil {
			continue
		}
		rw.info.Funcs = append(rw.info.Funcs, fd.Name.Name)
		rw.fn = fd.Name.Name
		fd.Body.List = rw.block(fd.Body.List)
	}
	if rw.err != nil {
		return nil, nil, rw.err
	}
	var buf bytes.Buffer
	if err := format.Node(&buf, fset, f); err != nil {
		return nil, nil, err
	}
	return buf.Bytes(), &rw.info, nil
}

func (rw *rewriter) fail(n ast.Node, what string) {
	if rw.err == nil {
		rw.err = fmt.Errorf("%s: generated code uses %s, which the simulator does not understand (%s)", rw.fn, what, rw.fset.Position(n.Pos()))
	}
}

func call(fn string, args ...ast.Expr) *ast.ExprStmt {
	return &ast.ExprStmt{X: &ast.CallExpr{Fun: &ast.SelectorExpr{X: ast.NewIdent("simrt"), Sel: ast.NewIdent(fn)}, Args: args}}
}

func str(s string) ast.Expr { return &ast.BasicLit{Kind: token.STRING, Value: strconv.Quote(s)} }

func (rw *rewriter) src(e ast.Expr) string {
	var b bytes.Buffer
	_ = format.Node(&b, rw.fset, e)
	return b.String()
}

func isVarIdent(e ast.Expr) (*ast.Ident, bool) {
	id, ok := e.(*ast.Ident)
	if !ok || id.Name == "_" || id.Name == "nil" || id.Name == "true" || id.Name == "false" {
		return nil, false
	}
	if id.Obj == nil || id.Obj.Kind != ast.Var {
		return nil, false
	}
	return id, true
}

// receiverVar returns the variable a method-call expression such as ctx.Done() / ctx.Err() is invoked on.
func receiverVar(e ast.Expr) (*ast.Ident, bool) {
	c, ok := e.(*ast.CallExpr)
	if !ok {
		return nil, false
	}
	sel, ok := c.Fun.(*ast.SelectorExpr)
	if !ok {
		return nil, false
	}
	return isVarIdent(sel.X)
}

// access builds simrt.Reads/Writes(site, []string{names}, &a, &b).
func (rw *rewriter) access(fn string, pos token.Pos, ids []*ast.Ident) ast.Stmt {
	if len(ids) == 0 {
		return nil
	}
	names := &ast.CompositeLit{Type: &ast.ArrayType{Elt: ast.NewIdent("string")}}
	args := []ast.Expr{str(fmt.Sprintf("%s:%d", rw.fn, rw.fset.Position(pos).Line)), names}
	for _, id := range ids {
		names.Elts = append(names.Elts, str(id.Name))
		args = append(args, &ast.UnaryExpr{Op: token.AND, X: ast.NewIdent(id.Name)})
	}
	return call(fn, args...)
}

func (rw *rewriter) block(list []ast.Stmt) []ast.Stmt {
	var out []ast.Stmt
	for _, s := range list {
		out = append(out, rw.stmt(s)...)
	}
	return out
}

// funcLits instruments the bodies of function literals passed as call arguments (eg.Go(func() error {...})).
func (rw *rewriter) funcLits(e ast.Expr) {
	ast.Inspect(e, func(n ast.Node) bool {
		if fl, ok := n.(*ast.FuncLit); ok {
			fl.Body.List = rw.block(fl.Body.List)
			return false
		}
		return true
	})
}

func (rw *rewriter) isErrgroupCall(c *ast.CallExpr) bool {
	if sel, ok := c.Fun.(*ast.SelectorExpr); ok {
		if x, ok := sel.X.(*ast.Ident); ok {
			if x.Name == rw.egName || x.Name == "eg" {
				return true
			}
		}
	}
	return false
}

func (rw *rewriter) stmt(s ast.Stmt) []ast.Stmt {
	switch s := s.(type) {
	case *ast.ExprStmt:
		switch x := s.X.(type) {
		case *ast.UnaryExpr:
			if x.Op == token.ARROW {
				rw.info.Recvs++
				if id, ok := receiverVar(x.X); ok {
					return []ast.Stmt{rw.access("Reads", s.Pos(), []*ast.Ident{id}), call("Recv", x.X, str(rw.src(x.X))), s}
				}
				return []ast.Stmt{call("Recv", x.X, str(rw.src(x.X))), s}
			}
		case *ast.CallExpr:
			if id, ok := x.Fun.(*ast.Ident); ok && id.Name == "close" && len(x.Args) == 1 {
				rw.info.Closes++
				return []ast.Stmt{call("Close", x.Args[0], str(rw.src(x.Args[0]))), s}
			}
			if rw.isErrgroupCall(x) {
				if sel := x.Fun.(*ast.SelectorExpr); sel.Sel.Name == "Go" {
					rw.info.Goroutines++
				}
			}
			rw.funcLits(x)
			return []ast.Stmt{s}
		}
		return []ast.Stmt{s}
	case *ast.SelectStmt:
		rw.info.Selects++
		rw.n++
		v := fmt.Sprintf("simsel%d", rw.n)
		names := &ast.CompositeLit{Type: &ast.ArrayType{Elt: ast.NewIdent("string")}}
		var ops []ast.Expr
		hasDefault := "false"
		idx := 0
		for _, c := range s.Body.List {
			cc := c.(*ast.CommClause)
			cc.Body = rw.block(cc.Body)
			if cc.Comm == nil {
				hasDefault = "true"
				continue
			}
			var recv *ast.UnaryExpr
			switch cm := cc.Comm.(type) {
			case *ast.ExprStmt:
				recv, _ = cm.X.(*ast.UnaryExpr)
			case *ast.AssignStmt:
				if len(cm.Rhs) == 1 {
					recv, _ = cm.Rhs[0].(*ast.UnaryExpr)
				}
			}
			if recv == nil || recv.Op != token.ARROW {
				rw.fail(cc, "a select case that is not a receive")
				return []ast.Stmt{s}
			}
			ops = append(ops, recv.X)
			names.Elts = append(names.Elts, str(rw.src(recv.X)))
			recv.X = &ast.IndexExpr{X: ast.NewIdent(v), Index: &ast.BasicLit{Kind: token.INT, Value: strconv.Itoa(idx)}}
			idx++
		}
		var rd []*ast.Ident
		for _, op := range ops {
			if id, ok := receiverVar(op); ok {
				rd = append(rd, id)
			}
		}
		args := append([]ast.Expr{ast.NewIdent(hasDefault), names}, ops...)
		hoist := &ast.AssignStmt{Lhs: []ast.Expr{ast.NewIdent(v)}, Tok: token.DEFINE, Rhs: []ast.Expr{
			&ast.CallExpr{Fun: &ast.SelectorExpr{X: ast.NewIdent("simrt"), Sel: ast.NewIdent("Select")}, Args: args}}}
		if st := rw.access("Reads", s.Pos(), rd); st != nil {
			return []ast.Stmt{st, hoist, s}
		}
		return []ast.Stmt{hoist, s}
	case *ast.AssignStmt:
		var before, after []ast.Stmt
		if len(s.Rhs) == 1 {
			switch r := s.Rhs[0].(type) {
			case *ast.CallExpr:
				rw.funcLits(r)
				if rw.isErrgroupCall(r) {
					return []ast.Stmt{s}
				}
				var rd []*ast.Ident
				for _, a := range r.Args {
					if id, ok := isVarIdent(a); ok {
						rd = append(rd, id)
					}
				}
				if st := rw.access("Reads", s.Pos(), rd); st != nil {
					before = append(before, st)
				}
			case *ast.SelectorExpr:
				if id, ok := isVarIdent(r.X); ok {
					before = append(before, rw.access("Reads", s.Pos(), []*ast.Ident{id}))
				}
			case *ast.UnaryExpr:
				if r.Op == token.ARROW {
					rw.fail(s, "a receive with assignment")
				}
			}
		}
		var wr []*ast.Ident
		for _, l := range s.Lhs {
			if id, ok := l.(*ast.Ident); ok && id.Name != "_" {
				wr = append(wr, id)
			}
		}
		if len(before) > 0 || len(s.Rhs) == 1 {
			if _, isCall := s.Rhs[0].(*ast.CallExpr); isCall || len(before) > 0 {
				if st := rw.access("Writes", s.Pos(), wr); st != nil {
					after = append(after, st)
				}
			}
		}
		out := append(before, s)
		return append(out, after...)
	case *ast.ReturnStmt:
		var rd []*ast.Ident
		for _, r := range s.Results {
			if id, ok := isVarIdent(r); ok {
				rd = append(rd, id)
			} else if id, ok := receiverVar(r); ok {
				rd = append(rd, id)
			}
			rw.funcLits(r)
		}
		if st := rw.access("Reads", s.Pos(), rd); st != nil {
			return []ast.Stmt{st, s}
		}
		return []ast.Stmt{s}
	case *ast.IfStmt:
		if s.Init != nil {
			if as, ok := s.Init.(*ast.AssignStmt); ok && len(as.Rhs) == 1 {
				rw.funcLits(as.Rhs[0])
			}
		}
		s.Body.List = rw.block(s.Body.List)
		if s.Else != nil {
			switch e := s.Else.(type) {
			case *ast.BlockStmt:
				e.List = rw.block(e.List)
			case *ast.IfStmt:
				rw.stmt(e)
			}
		}
		return []ast.Stmt{s}
	case *ast.RangeStmt:
		s.Body.List = rw.block(s.Body.List)
		return []ast.Stmt{s}
	case *ast.ForStmt:
		s.Body.List = rw.block(s.Body.List)
		return []ast.Stmt{s}
	case *ast.BlockStmt:
		s.List = rw.block(s.List)
		return []ast.Stmt{s}
	case *ast.SwitchStmt:
		for _, c := range s.Body.List {
			cc := c.(*ast.CaseClause)
			cc.Body = rw.block(cc.Body)
		}
		return []ast.Stmt{s}
	case *ast.GoStmt:
		rw.info.Goroutines++
		rw.funcLits(s.Call)
		fl := &ast.FuncLit{Type: &ast.FuncType{Params: &ast.FieldList{}}, Body: &ast.BlockStmt{List: []ast.Stmt{&ast.ExprStmt{X: s.Call}}}}
		return []ast.Stmt{call("Go", fl)}
	case *ast.SendStmt:
		// the generator never emits sends; a changed one may: the simulator parks the sender until a
		// receiver takes the value and only then lets a helper goroutine perform the real send
		orig := &ast.SendStmt{Chan: s.Chan, Value: s.Value}
		fl := &ast.FuncLit{Type: &ast.FuncType{Params: &ast.FieldList{}}, Body: &ast.BlockStmt{List: []ast.Stmt{orig}}}
		return []ast.Stmt{call("Send", s.Chan, str(rw.src(s.Chan)), fl)}
	case *ast.DeferStmt:
		rw.fail(s, "defer")
	case *ast.LabeledStmt:
		s.Stmt = &ast.BlockStmt{List: rw.stmt(s.Stmt)}
		return []ast.Stmt{s}
	case *ast.DeclStmt:
		// var ( xCh = make(chan struct{}) ): tell the simulator the channel's name
		out := []ast.Stmt{s}
		if gd, ok := s.Decl.(*ast.GenDecl); ok && gd.Tok == token.VAR {
			for _, sp := range gd.Specs {
				vs, ok := sp.(*ast.ValueSpec)
				if !ok || len(vs.Values) != len(vs.Names) {
					continue
				}
				for i, v := range vs.Values {
					if c, ok := v.(*ast.CallExpr); ok {
						if id, ok := c.Fun.(*ast.Ident); ok && id.Name == "make" && len(c.Args) >= 1 {
							if _, isChan := c.Args[0].(*ast.ChanType); isChan && vs.Names[i].Name != "_" {
								out = append(out, call("Name", ast.NewIdent(vs.Names[i].Name), str(vs.Names[i].Name)))
							}
						}
					}
				}
			}
		}
		return out
	case *ast.EmptyStmt, *ast.BranchStmt, *ast.IncDecStmt:
		return []ast.Stmt{s}
	}
	return []ast.Stmt{s}
}
