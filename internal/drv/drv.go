// Package drv holds what every engine driver shares: scratch directories, running
// tools, the evidence file, known findings, replay files and the output contract.
package drv

import (
	"bufio"
	"bytes"
	"encoding/json"
	"fmt"
	"os"
	"os/exec"
	"os/signal"
	"path/filepath"
	"sort"
	"strconv"
	"strings"
	"sync"
	"syscall"
	"time"
)

// Exit codes of the output contract.
const (
	ExitOK        = 0
	ExitViolation = 1
	ExitBroken    = 2
)

var (
	Root = envOr("VERIF_ROOT", "/verif")
	Repo = envOr("VERIF_REPO", "/repo")
)

func envOr(k, d string) string {
	if v := os.Getenv(k); v != "" {
		return v
	}
	return d
}

// Seed reads VERIF_SEED (default 1).
func Seed() uint64 {
	if v := os.Getenv("VERIF_SEED"); v != "" {
		if n, err := strconv.ParseUint(v, 10, 64); err == nil {
			return n
		}
		if n, err := strconv.ParseInt(v, 10, 64); err == nil {
			return uint64(n)
		}
		Broken("VERIF_SEED is not an integer: %q", v)
	}
	return 1
}

// Broken reports that the check could not do its job (never a violation).
func Broken(format string, a ...any) {
	fmt.Fprintf(os.Stderr, "vcheck: BROKEN: "+format+"\n", a...)
	cleanupAll()
	os.Exit(ExitBroken)
}

// ---------------------------------------------------------------- scratch

var (
	scratchMu   sync.Mutex
	scratchDirs []string
	sigOnce     sync.Once
)

// Scratch creates a private directory outside /repo and /verif, removed at exit.
func Scratch(tag string) string {
	sigOnce.Do(func() {
		c := make(chan os.Signal, 2)
		signal.Notify(c, syscall.SIGINT, syscall.SIGTERM, syscall.SIGHUP)
		go func() {
			<-c
			cleanupAll()
			os.Exit(ExitBroken)
		}()
	})
	base := os.Getenv("VERIF_SCRATCH")
	if base == "" {
		base = os.TempDir()
	}
	d, err := os.MkdirTemp(base, "verif-"+tag+"-")
	if err != nil {
		Broken("cannot create scratch directory: %v", err)
	}
	scratchMu.Lock()
	scratchDirs = append(scratchDirs, d)
	scratchMu.Unlock()
	return d
}

func cleanupAll() {
	scratchMu.Lock()
	defer scratchMu.Unlock()
	if os.Getenv("VERIF_KEEP_SCRATCH") != "" {
		for _, d := range scratchDirs {
			fmt.Fprintln(os.Stderr, "vcheck: keeping scratch", d)
		}
		return
	}
	for _, d := range scratchDirs {
		// module-cache style read-only files are not created here, a plain RemoveAll suffices
		_ = os.RemoveAll(d)
	}
	scratchDirs = nil
}

// Exit cleans up and exits.
func Exit(code int) {
	cleanupAll()
	os.Exit(code)
}

// CopyRepo copies the current working tree of the repository (without .git).
func CopyRepo(dst string) {
	if err := os.MkdirAll(dst, 0o755); err != nil {
		Broken("mkdir %s: %v", dst, err)
	}
	out, err := exec.Command("rsync", "-a", "--exclude", ".git", Repo+"/", dst+"/").CombinedOutput()
	if err != nil {
		Broken("rsync of %s failed: %v\n%s", Repo, err, out)
	}
}

// CopyTree copies a directory of our own runtime sources, rewriting import paths.
func CopyTree(src, dst string, rewrite func([]byte) []byte) {
	err := filepath.Walk(src, func(p string, info os.FileInfo, err error) error {
		if err != nil {
			return err
		}
		rel, _ := filepath.Rel(src, p)
		q := filepath.Join(dst, rel)
		if info.IsDir() {
			return os.MkdirAll(q, 0o755)
		}
		b, err := os.ReadFile(p)
		if err != nil {
			return err
		}
		if rewrite != nil && strings.HasSuffix(p, ".go") {
			b = rewrite(b)
		}
		return os.WriteFile(q, b, 0o644)
	})
	if err != nil {
		Broken("copy %s -> %s: %v", src, dst, err)
	}
}

// ---------------------------------------------------------------- running tools

type CmdResult struct {
	Out  []byte
	Err  error
	Code int
}

// Run executes a command with a watchdog; a timeout is a BROKEN condition for the caller to decide.
func Run(dir string, timeout time.Duration, env []string, name string, args ...string) CmdResult {
	cmd := exec.Command(name, args...)
	cmd.Dir = dir
	cmd.Env = append(os.Environ(), env...)
	var buf bytes.Buffer
	cmd.Stdout = &buf
	cmd.Stderr = &buf
	if err := cmd.Start(); err != nil {
		// transient under heavy load (EAGAIN on fork, ETXTBSY): retry a few times before giving up
		var serr error = err
		for i := 0; i < 5 && serr != nil; i++ {
			time.Sleep(time.Duration(200*(i+1)) * time.Millisecond)
			cmd = exec.Command(name, args...)
			cmd.Dir = dir
			cmd.Env = append(os.Environ(), env...)
			cmd.Stdout = &buf
			cmd.Stderr = &buf
			serr = cmd.Start()
		}
		if serr != nil {
			return CmdResult{Err: serr, Code: -1}
		}
	}
	done := make(chan error, 1)
	go func() { done <- cmd.Wait() }()
	select {
	case err := <-done:
		code := 0
		if err != nil {
			code = -1
			if ee, ok := err.(*exec.ExitError); ok {
				code = ee.ExitCode()
			}
		}
		return CmdResult{Out: buf.Bytes(), Err: err, Code: code}
	case <-time.After(timeout):
		_ = cmd.Process.Kill()
		<-done
		return CmdResult{Out: buf.Bytes(), Err: fmt.Errorf("watchdog: %s did not finish within %v", name, timeout), Code: -2}
	}
}

// GoVersion names the toolchain in use (written into the evidence).
func GoVersion() string {
	r := Run("", 30*time.Second, nil, "go", "version")
	return strings.TrimSpace(string(r.Out))
}

// Parallel runs n jobs on at most w workers.
func Parallel(n, w int, job func(i int)) {
	if w < 1 {
		w = 1
	}
	var wg sync.WaitGroup
	ch := make(chan int)
	for k := 0; k < w; k++ {
		wg.Add(1)
		go func() {
			defer wg.Done()
			for i := range ch {
				job(i)
			}
		}()
	}
	for i := 0; i < n; i++ {
		ch <- i
	}
	close(ch)
	wg.Wait()
}

// ---------------------------------------------------------------- evidence

type Evidence struct {
	PropertyID  string         `json:"property_id"`
	Tier        string         `json:"tier"`
	Seed        uint64         `json:"seed"`
	Level       string         `json:"level"`
	Coverage    map[string]any `json:"coverage"`
	Assumptions []string       `json:"assumptions"`
	WallS       float64        `json:"wall_s"`
	Violations  int            `json:"violations"`
}

func WriteEvidence(e *Evidence) {
	dir := filepath.Join(Root, "evidence")
	_ = os.MkdirAll(dir, 0o755)
	b, err := json.MarshalIndent(e, "", " ")
	if err != nil {
		Broken("marshal evidence: %v", err)
	}
	if err := os.WriteFile(filepath.Join(dir, e.PropertyID+".json"), append(b, '\n'), 0o644); err != nil {
		Broken("write evidence: %v", err)
	}
}

// ---------------------------------------------------------------- known findings

type Finding struct {
	Property string
	Sig      string
	Text     string
}

// LoadFindings reads known_findings.txt ("finding: property=Cxx sig=<sig> :: text"; "fixed:" lines suppress nothing).
func LoadFindings(prop string) []Finding {
	f, err := os.Open(filepath.Join(Root, "known_findings.txt"))
	if err != nil {
		return nil
	}
	defer f.Close()
	var out []Finding
	sc := bufio.NewScanner(f)
	sc.Buffer(make([]byte, 1<<20), 1<<20)
	for sc.Scan() {
		ln := strings.TrimSpace(sc.Text())
		if !strings.HasPrefix(ln, "finding:") {
			continue
		}
		rest := strings.TrimSpace(strings.TrimPrefix(ln, "finding:"))
		head, text, _ := strings.Cut(rest, "::")
		var fd Finding
		for _, tok := range strings.Fields(head) {
			if v, ok := strings.CutPrefix(tok, "property="); ok {
				fd.Property = v
			}
			if v, ok := strings.CutPrefix(tok, "sig="); ok {
				fd.Sig = v
			}
		}
		fd.Text = strings.TrimSpace(text)
		if fd.Property == prop && fd.Sig != "" {
			out = append(out, fd)
		}
	}
	return out
}

// ---------------------------------------------------------------- violations / replay files

type Violation struct {
	Property  string          `json:"property"`
	Signature string          `json:"signature"`
	Detail    string          `json:"detail"`
	Replay    json.RawMessage `json:"replay"` // engine-specific, self-contained
	Count     int             `json:"count"`
}

// Outcome settles exit code and prints the contract lines. known maps signature -> observed count.
type Outcome struct {
	Prop     string
	New      []Violation
	Known    map[string]int
	Findings []Finding
}

func NewOutcome(prop string) *Outcome {
	return &Outcome{Prop: prop, Known: map[string]int{}, Findings: LoadFindings(prop)}
}

// Add files a violation as known finding or new violation (deduplicated by signature).
func (o *Outcome) Add(v Violation) {
	for _, f := range o.Findings {
		if f.Sig == v.Signature {
			o.Known[f.Sig] += max(1, v.Count)
			return
		}
	}
	for i := range o.New {
		if o.New[i].Signature == v.Signature {
			o.New[i].Count += max(1, v.Count)
			return
		}
	}
	if v.Count == 0 {
		v.Count = 1
	}
	o.New = append(o.New, v)
}

// Finish writes replay files, prints KNOWN-FINDING / VIOLATION lines and returns the exit code.
func (o *Outcome) Finish() int {
	for _, f := range o.Findings {
		fmt.Printf("KNOWN-FINDING: property=%s %s [sig=%s] (observed=%d)\n", o.Prop, f.Text, f.Sig, o.Known[f.Sig])
	}
	if len(o.New) == 0 {
		return ExitOK
	}
	sort.Slice(o.New, func(i, j int) bool { return o.New[i].Signature < o.New[j].Signature })
	dir := filepath.Join(Root, "replays", o.Prop)
	_ = os.MkdirAll(dir, 0o755)
	for i, v := range o.New {
		if i >= 8 {
			fmt.Printf("(%d further distinct violation signatures not written out)\n", len(o.New)-i)
			break
		}
		name := filepath.Join(dir, fmt.Sprintf("%s-%s.json", o.Prop, sanitize(v.Signature)))
		if err := os.WriteFile(name, v.Replay, 0o644); err != nil {
			Broken("write replay file: %v", err)
		}
		fmt.Printf("violation: property=%s signature=%s count=%d :: %s\n", o.Prop, v.Signature, v.Count, v.Detail)
		fmt.Printf("VIOLATION property=%s replay=%s\n", o.Prop, name)
	}
	return ExitViolation
}

func sanitize(s string) string {
	var b strings.Builder
	for _, r := range s {
		switch {
		case r >= 'a' && r <= 'z', r >= 'A' && r <= 'Z', r >= '0' && r <= '9', r == '-', r == '_':
			b.WriteRune(r)
		default:
			b.WriteByte('_')
		}
	}
	out := b.String()
	if len(out) > 80 {
		out = out[:80]
	}
	return out
}

// Tier validates the tier argument.
func Tier(s string) string {
	switch s {
	case "quick", "thorough":
		return s
	}
	if v := os.Getenv("VERIF_TIER"); v == "quick" || v == "thorough" {
		return v
	}
	Broken("tier must be quick or thorough, got %q", s)
	return ""
}

// Workers is the number of OS processes to run side by side.
func Workers() int {
	if v := os.Getenv("VERIF_WORKERS"); v != "" {
		if n, err := strconv.Atoi(v); err == nil && n > 0 {
			return n
		}
	}
	return 16
}

// ---------------------------------------------------------------- private Go build cache

// Every check compiles thousands of one-off packages. Left in the shared build cache they
// pile up (130 GB in a few hours), so each check works on a private copy of a small warm
// base cache (toolchain std + the repository's dependencies, ~90 MB, copied in ~0.3 s)
// that is deleted with the scratch directory.
func gocacheBase() string { return filepath.Join(Root, ".cache", "gobase") }

// WarmGoCache builds the base cache if it does not exist yet.
func WarmGoCache() {
	base := gocacheBase()
	if _, err := os.Stat(filepath.Join(base, "README")); err == nil {
		return
	}
	tmp := fmt.Sprintf("%s.tmp.%d", base, os.Getpid())
	_ = os.RemoveAll(tmp)
	if err := os.MkdirAll(tmp, 0o755); err != nil {
		Broken("cannot create %s: %v", tmp, err)
	}
	s := Scratch("warm")
	repo := filepath.Join(s, "repo")
	CopyRepo(repo)
	env := []string{"GOCACHE=" + tmp}
	if r := Run(repo, 20*time.Minute, env, "go", "build", "-o", filepath.Join(s, "kessoku"), "./cmd/kessoku"); r.Err != nil {
		_ = os.RemoveAll(tmp)
		Broken("warming the build cache: building cmd/kessoku failed:\n%s", r.Out)
	}
	// the harness side: runtime packages and what they import from std
	_ = Run(Root, 20*time.Minute, env, "go", "build", "./rt/...", "./internal/...")
	if err := os.Rename(tmp, base); err != nil {
		// another process won the race: fine
		_ = os.RemoveAll(tmp)
	}
	_ = os.RemoveAll(s)
}

// UseGoCache points this process (and its children) at a private copy of the base cache inside scratch.
func UseGoCache(scratch string) {
	WarmGoCache()
	dst := filepath.Join(scratch, "gocache")
	if out, err := exec.Command("cp", "-a", gocacheBase(), dst).CombinedOutput(); err != nil {
		// no base: an empty private cache still works, only slower
		_ = os.MkdirAll(dst, 0o755)
		fmt.Fprintf(os.Stderr, "vcheck: note: could not copy the warm build cache (%v %s); starting cold\n", err, out)
	}
	os.Setenv("GOCACHE", dst)
}
