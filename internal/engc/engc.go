// Package engc drives engine C (disksim): the skill installer on a simulated disk.
package engc

import (
	"encoding/json"
	"fmt"
	"go/ast"
	"go/format"
	"go/parser"
	"go/token"
	"os"
	"path/filepath"
	"regexp"
	"sort"
	"strconv"
	"strings"
	"time"

	"verif/internal/drv"
)

const (
	repoMod    = "github.com/mazrean/kessoku"
	simPkgBase = repoMod + "/internal/verifsim/"
)

// denied imports would let the code under test reach the real kernel around the seam.
var denied = []string{"syscall", "os/exec", "golang.org/x/sys/unix", "unsafe", "io/ioutil_"}

type build struct {
	scratch string
	repo    string
	bin     string
	kessoku string // real CLI binary (built on demand)
}

// prepare copies the working tree, redirects the os / path/filepath imports of
// internal/llmsetup to the simulated disk and builds the harness inside the scratch module.
func prepare() *build {
	b := &build{scratch: drv.Scratch("engc")}
	drv.UseGoCache(b.scratch)
	b.repo = filepath.Join(b.scratch, "repo")
	drv.CopyRepo(b.repo)
	rw := func(src []byte) []byte {
		return []byte(strings.ReplaceAll(string(src), `"verif/rt/`, `"`+simPkgBase))
	}
	for _, p := range []string{"simos", "simfilepath", "simioutil", "disksim"} {
		drv.CopyTree(filepath.Join(drv.Root, "rt", p), filepath.Join(b.repo, "internal", "verifsim", p), rw)
	}
	dir := filepath.Join(b.repo, "internal", "llmsetup")
	ents, err := os.ReadDir(dir)
	if err != nil {
		drv.Broken("internal/llmsetup not found in the working tree: %v", err)
	}
	for _, e := range ents {
		name := filepath.Join(dir, e.Name())
		if e.IsDir() || !strings.HasSuffix(name, ".go") {
			continue
		}
		if strings.HasSuffix(name, "_test.go") {
			_ = os.Remove(name)
			continue
		}
		redirectImports(name)
	}
	b.bin = filepath.Join(b.scratch, "disksim")
	r := drv.Run(b.repo, 10*time.Minute, nil, "go", "build", "-tags", "verifscratch", "-o", b.bin, "./internal/verifsim/disksim")
	if r.Err != nil {
		drv.Broken("building the disksim harness against the working tree failed (does internal/llmsetup use an os function the simulated disk lacks?):\n%s", r.Out)
	}
	return b
}

func redirectImports(file string) {
	fset := token.NewFileSet()
	f, err := parser.ParseFile(fset, file, nil, parser.ParseComments)
	if err != nil {
		drv.Broken("parse %s: %v", file, err)
	}
	changed := false
	for _, imp := range f.Imports {
		p, _ := strconv.Unquote(imp.Path.Value)
		if p == "syscall" && syscallConstantsOnly(f, imp) {
			continue // error numbers only (errors.Is(err, syscall.EINTR)): nothing reaches the kernel
		}
		for _, d := range denied {
			if p == d {
				drv.Broken("%s imports %q: the simulated disk cannot intercept it (construct not understood, see DESIGN 2.2)", file, p)
			}
		}
		var to, name string
		switch p {
		case "os":
			to, name = simPkgBase+"simos", "os"
		case "path/filepath":
			to, name = simPkgBase+"simfilepath", "filepath"
		case "io/ioutil":
			to, name = simPkgBase+"simioutil", "ioutil"
		default:
			continue
		}
		imp.Path.Value = strconv.Quote(to)
		if imp.Name == nil {
			imp.Name = ast.NewIdent(name)
		}
		changed = true
	}
	if !changed {
		return
	}
	out, err := os.Create(file)
	if err != nil {
		drv.Broken("rewrite %s: %v", file, err)
	}
	defer out.Close()
	if err := format.Node(out, fset, f); err != nil {
		drv.Broken("rewrite %s: %v", file, err)
	}
}

type simResult struct {
	Mode         string         `json:"mode"`
	Scenarios    int            `json:"scenarios"`
	Runs         int            `json:"runs"`
	CrashRuns    int            `json:"crash_runs"`
	ErrorRuns    int            `json:"error_runs"`
	Reruns       int            `json:"reruns_after_crash"`
	Tolerated    int            `json:"tolerated_failures"`
	FaultFired   map[string]int `json:"fault_fired"`
	StepKinds    map[string]int `json:"step_kinds"`
	PreKinds     map[string]int `json:"pre_kinds"`
	Distinct     []string       `json:"distinct"`
	MaxSteps     int            `json:"max_steps"`
	BaseFailures int            `json:"base_failures"`
	Violations   []simViolation `json:"violations"`
	Samples      []any          `json:"samples"`
	AgentsDoc    int            `json:"agents_documented"`
	SkillFiles   int            `json:"skill_files"`
	WallS        float64        `json:"wall_s"`
}

type simViolation struct {
	Property  string          `json:"property"`
	Signature string          `json:"signature"`
	Detail    string          `json:"detail"`
	Scenario  json.RawMessage `json:"scenario"`
	Plan      json.RawMessage `json:"plan"`
	LogHash   string          `json:"log_hash"`
	OpLog     json.RawMessage `json:"op_log"`
}

func (b *build) runShards(mode string, seed uint64, scenarios int) (*simResult, []simViolation) {
	w := drv.Workers()
	results := make([]*simResult, w)
	fails := make([]string, w)
	drv.Parallel(w, w, func(i int) {
		out := filepath.Join(b.scratch, fmt.Sprintf("res-%s-%d-%d.json", mode, seed, i))
		gmp := "GOMAXPROCS=1"
		if v := os.Getenv("VERIF_BATCH_GOMAXPROCS"); v != "" {
			gmp = "GOMAXPROCS=" + v
		}
		r := drv.Run(b.scratch, 30*time.Minute, []string{gmp}, b.bin,
			"-mode", mode, "-seed", fmt.Sprint(seed), "-scenarios", fmt.Sprint(scenarios),
			"-shard", fmt.Sprint(i), "-shards", fmt.Sprint(w),
			"-skill", filepath.Join(b.repo, "internal", "llmsetup", "skills", "kessoku-di"),
			"-readme", filepath.Join(b.repo, "README.md"), "-out", out)
		if r.Err != nil {
			fails[i] = fmt.Sprintf("shard %d: %v\n%s", i, r.Err, r.Out)
			return
		}
		data, err := os.ReadFile(out)
		if err != nil {
			fails[i] = err.Error()
			return
		}
		var sr simResult
		if err := json.Unmarshal(data, &sr); err != nil {
			fails[i] = err.Error()
			return
		}
		results[i] = &sr
		_ = os.Remove(out)
	})
	for _, f := range fails {
		if f != "" {
			drv.Broken("disksim %s", f)
		}
	}
	tot := &simResult{Mode: mode, FaultFired: map[string]int{}, StepKinds: map[string]int{}, PreKinds: map[string]int{}}
	distinct := map[string]struct{}{}
	var viols []simViolation
	for _, r := range results {
		tot.Scenarios += r.Scenarios
		tot.Runs += r.Runs
		tot.CrashRuns += r.CrashRuns
		tot.ErrorRuns += r.ErrorRuns
		tot.Reruns += r.Reruns
		tot.Tolerated += r.Tolerated
		tot.BaseFailures += r.BaseFailures
		tot.AgentsDoc, tot.SkillFiles = r.AgentsDoc, r.SkillFiles
		if r.MaxSteps > tot.MaxSteps {
			tot.MaxSteps = r.MaxSteps
		}
		for k, v := range r.FaultFired {
			tot.FaultFired[k] += v
		}
		for k, v := range r.StepKinds {
			tot.StepKinds[k] += v
		}
		for k, v := range r.PreKinds {
			tot.PreKinds[k] += v
		}
		for _, d := range r.Distinct {
			distinct[d] = struct{}{}
		}
		viols = append(viols, r.Violations...)
		if len(tot.Samples) < 4 {
			tot.Samples = append(tot.Samples, r.Samples...)
		}
	}
	for d := range distinct {
		tot.Distinct = append(tot.Distinct, d)
	}
	sort.Strings(tot.Distinct)
	return tot, viols
}

func toViolation(v simViolation) drv.Violation {
	raw, _ := json.MarshalIndent(map[string]any{
		"engine": "disksim", "property": v.Property, "signature": v.Signature, "detail": v.Detail,
		"scenario": v.Scenario, "plan": v.Plan, "log_hash": v.LogHash, "op_log": v.OpLog,
	}, "", " ")
	return drv.Violation{Property: v.Property, Signature: v.Signature, Detail: v.Detail, Replay: raw}
}

// confirm re-executes a violation's replay file in a fresh process; it must reproduce.
func (b *build) confirm(v drv.Violation) bool {
	tmp := filepath.Join(b.scratch, "confirm.json")
	_ = os.WriteFile(tmp, v.Replay, 0o644)
	r := b.replayRaw(tmp)
	return r.Code == drv.ExitViolation && strings.Contains(string(r.Out), fmt.Sprintf("signature=%q", v.Signature))
}

func (b *build) replayRaw(file string) drv.CmdResult {
	return drv.Run(b.scratch, 5*time.Minute, []string{"GOMAXPROCS=1"}, b.bin, "-mode", "replay", "-replay", file,
		"-skill", filepath.Join(b.repo, "internal", "llmsetup", "skills", "kessoku-di"),
		"-readme", filepath.Join(b.repo, "README.md"))
}

// Replay re-runs a replay file of this engine against the current working tree.
func Replay(file string) int {
	raw, err := os.ReadFile(file)
	if err != nil {
		drv.Broken("replay file: %v", err)
	}
	var head struct {
		Engine   string `json:"engine"`
		Property string `json:"property"`
	}
	_ = json.Unmarshal(raw, &head)
	b := prepare()
	if head.Engine == "realcli" {
		code := b.replayReal(raw)
		if code == drv.ExitViolation {
			fmt.Printf("VIOLATION property=%s replay=%s\n", head.Property, file)
		}
		return code
	}
	if head.Engine == "strace" {
		return b.replayStrace(raw, file)
	}
	r := b.replayRaw(file)
	fmt.Print(string(r.Out))
	if r.Code != drv.ExitOK && r.Code != drv.ExitViolation {
		drv.Broken("replay failed: %v", r.Err)
	}
	return r.Code
}

// ---------------------------------------------------------------- C15

func RunC15(tier string) int {
	start := time.Now()
	seed := drv.Seed()
	fmt.Printf("C15 %s VERIF_SEED=%d\n", tier, seed)
	b := prepare()
	scenarios := 320
	if tier == "thorough" {
		scenarios = 6000
	}
	res, viols := b.runShards("c15", seed, scenarios)
	out := drv.NewOutcome("C15")
	for _, v := range viols {
		dv := toViolation(v)
		if !b.confirm(dv) {
			drv.Broken("violation %s does not reproduce from its replay file in a fresh process (harness nondeterminism)", v.Signature)
		}
		out.Add(dv)
	}
	var kernel map[string]any
	if tier == "thorough" {
		kernel = b.straceCrossCheck(out, seed)
	}
	if res.Scenarios == 0 || res.Runs == 0 || res.CrashRuns == 0 || res.ErrorRuns == 0 {
		drv.Broken("vacuous C15 run: scenarios=%d runs=%d crash=%d error=%d", res.Scenarios, res.Runs, res.CrashRuns, res.ErrorRuns)
	}
	wall := time.Since(start).Seconds()
	cov := map[string]any{
		"evaluations":         res.Runs,
		"distinct_nontrivial": len(res.Distinct),
		"rule": "one evaluation = one execution of the real AgentCmd.Run on the simulated disk with exactly one fault (crash before/after/mid-write, errno failure, short write) at one numbered filesystem step; " +
			"per scenario (seeded agent x flags x pre-state x uid) EVERY step of the fault-free run is hit with EVERY fault variant (exhaustive per scenario, scenarios sampled). " +
			"distinct = distinct hashes of (op log incl. injected fault and errors, final tree shape); all are non-trivial because the fault took effect in each counted run",
		"samples":                              res.Samples,
		"exhaustive":                           false,
		"exhaustive_per_scenario":              true,
		"scenarios":                            res.Scenarios,
		"crash_runs":                           res.CrashRuns,
		"error_runs":                           res.ErrorRuns,
		"reruns_after_crash_verified":          res.Reruns,
		"tolerated_read_failures":              res.Tolerated,
		"scenarios_whose_fault_free_run_fails": res.BaseFailures,
		"faults_fired_by_kind":                 res.FaultFired,
		"steps_by_kind_in_fault_free_runs":     res.StepKinds,
		"pre_state_kinds":                      res.PreKinds,
		"max_steps_per_install":                res.MaxSteps,
		"skill_files":                          res.SkillFiles,
		"agents":                               res.AgentsDoc,
		"runs_per_hour":                        int(float64(res.Runs) / wall * 3600),
		"simulated_time":                       "not applicable: the installer has no clock; progress is counted in filesystem steps",
		"real_components":                      []string{"internal/llmsetup (Install, InstallFile, ResolvePath, ValidatePath, all agents, AgentCmd.Run)", "embed.FS with the real skill tree", "io/fs.WalkDir"},
		"stub_components":                      []string{"os -> verifsim/simos (in-memory POSIX-like disk)", "path/filepath.Abs -> simulated cwd"},
		"toolchain":                            drv.GoVersion(),
		"known_findings_observed":              out.Known,
	}
	if kernel != nil {
		cov["real_kernel_cross_check"] = kernel
	}
	code := out.Finish()
	drv.WriteEvidence(&drv.Evidence{PropertyID: "C15", Tier: tier, Seed: seed, Level: "fault_enumeration", Coverage: cov,
		Assumptions: []string{
			"crash model is process death: everything the kernel accepted survives (the property's model); power loss is out of scope",
			"simos models POSIX semantics for the calls the installer makes; checked against the real kernel by the strace cross-check in the thorough tier",
			"single fault per run (the property quantifies over single injected failures)",
		}, WallS: wall, Violations: len(out.New)})
	return code
}

// ---------------------------------------------------------------- C16

func RunC16(tier string) int {
	start := time.Now()
	seed := drv.Seed()
	fmt.Printf("C16 %s VERIF_SEED=%d\n", tier, seed)
	b := prepare()
	scenarios := 3000
	if tier == "thorough" {
		scenarios = 120000
	}
	res, viols := b.runShards("c16", seed, scenarios)
	out := drv.NewOutcome("C16")
	for _, v := range viols {
		dv := toViolation(v)
		if !b.confirm(dv) {
			drv.Broken("violation %s does not reproduce from its replay file in a fresh process (harness nondeterminism)", v.Signature)
		}
		out.Add(dv)
	}
	real := b.realCLI(out)
	if res.Scenarios == 0 {
		drv.Broken("vacuous C16 run")
	}
	wall := time.Since(start).Seconds()
	cov := map[string]any{
		"evaluations":         res.Runs + real["runs"].(int),
		"distinct_nontrivial": len(res.Distinct),
		"rule": "one evaluation = one fault-free installation (real AgentCmd.Run, simulated disk) checked for destination, completeness, byte identity, mode 0644 and containment by snapshot diff and op log; " +
			"the 9 agents x 5 flag combinations x {fresh, older install + unrelated files} matrix is enumerated completely, further scenarios are seeded (cwd, $HOME, pre-state, uid, temp-name collision, install sequences). " +
			"distinct = distinct (agent, has --path, --user, pre-state kinds, cwd, outcome) classes",
		"samples":                 res.Samples,
		"exhaustive":              false,
		"matrix_exhaustive":       true,
		"scenarios":               res.Scenarios,
		"pre_state_kinds":         res.PreKinds,
		"steps_by_kind":           res.StepKinds,
		"buggify_fired":           res.FaultFired,
		"agents_documented":       res.AgentsDoc,
		"skill_files":             res.SkillFiles,
		"real_cli":                real,
		"runs_per_hour":           int(float64(res.Runs) / wall * 3600),
		"real_components":         []string{"internal/llmsetup complete", "kong wiring of LLMSetupCmd (struct tags) in the simulated runs; the real kessoku binary + kong + real filesystem in the CLI-surface runs"},
		"stub_components":         []string{"os / path/filepath.Abs -> simulated disk (simulated runs only)"},
		"documentation_source":    "README.md 'Supported agents' line and 'Default installation paths' list, parsed at check time",
		"toolchain":               drv.GoVersion(),
		"known_findings_observed": out.Known,
	}
	code := out.Finish()
	drv.WriteEvidence(&drv.Evidence{PropertyID: "C16", Tier: tier, Seed: seed, Level: "exploration", Coverage: cov,
		Assumptions: []string{
			"README.md is the documentation the property refers to",
			"ownership is not modelled on the simulated disk (permission bits apply to the caller as owner)",
		}, WallS: wall, Violations: len(out.New)})
	return code
}

// SelfTest: the disk simulation is a pure function of the seed, whatever GOMAXPROCS is.
func SelfTest(seeds int) (int, map[string]any) {
	b := prepare()
	execs := 0
	for _, mode := range []string{"c15", "c16"} {
		for s := 0; s < seeds; s++ {
			seed := uint64(2000 + s)
			var ref string
			for _, procs := range []int{1, 4, 16, 1, 4, 16} {
				os.Setenv("VERIF_BATCH_GOMAXPROCS", fmt.Sprint(procs))
				res, viols := b.runShards(mode, seed, 48)
				execs++
				res.WallS = 0
				res.Samples = nil
				j1, _ := json.Marshal(res)
				j2, _ := json.Marshal(viols)
				got := string(j1) + string(j2)
				if ref == "" {
					ref = got
				} else if got != ref {
					drv.Broken("selftest: engine C %s seed %d differs between executions (GOMAXPROCS=%d)", mode, seed, procs)
				}
			}
			os.Unsetenv("VERIF_BATCH_GOMAXPROCS")
		}
	}
	return execs, map[string]any{"engine_C_executions_compared": execs}
}

var reErrnoName = regexp.MustCompile(`^(E[A-Z0-9]+|Errno)$`)

// syscallConstantsOnly reports whether the file uses package syscall for error numbers only.
func syscallConstantsOnly(f *ast.File, imp *ast.ImportSpec) bool {
	name := "syscall"
	if imp.Name != nil {
		name = imp.Name.Name
	}
	if name == "." || name == "_" {
		return false
	}
	ok := true
	ast.Inspect(f, func(n ast.Node) bool {
		if sel, is := n.(*ast.SelectorExpr); is {
			if id, isID := sel.X.(*ast.Ident); isID && id.Name == name && id.Obj == nil && !reErrnoName.MatchString(sel.Sel.Name) {
				ok = false
			}
		}
		return ok
	})
	return ok
}
