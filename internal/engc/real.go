package engc

import (
	"encoding/json"
	"fmt"
	"io/fs"
	"os"
	"path/filepath"
	"regexp"
	"sort"
	"strings"
	"time"

	"verif/internal/drv"
)

type docAgent struct {
	Display, CLI, Project, User string
}

var (
	reSupported = regexp.MustCompile("([A-Za-z][A-Za-z0-9 ]*?)\\(`([a-z0-9-]+)`\\)")
	rePathLine  = regexp.MustCompile("^- \\*\\*(.+?):\\*\\* `([^`]+)` \\(project\\) or `([^`]+)` \\(user\\)")
)

func parseReadme(path string) []docAgent {
	b, err := os.ReadFile(path)
	if err != nil {
		drv.Broken("README.md: %v", err)
	}
	var agents []docAgent
	idx := map[string]int{}
	inPaths := false
	for _, ln := range strings.Split(string(b), "\n") {
		if strings.HasPrefix(ln, "**Supported agents:**") {
			for _, m := range reSupported.FindAllStringSubmatch(ln, -1) {
				d := strings.TrimSpace(strings.TrimLeft(m[1], ", "))
				idx[d] = len(agents)
				agents = append(agents, docAgent{Display: d, CLI: m[2]})
			}
		}
		if strings.HasPrefix(ln, "**Default installation paths:**") {
			inPaths = true
			continue
		}
		if inPaths {
			if m := rePathLine.FindStringSubmatch(ln); m != nil {
				if i, ok := idx[m[1]]; ok {
					agents[i].Project = strings.TrimSuffix(m[2], "/")
					agents[i].User = strings.TrimSuffix(strings.TrimPrefix(m[3], "~/"), "/")
				}
			} else if strings.TrimSpace(ln) != "" && !strings.HasPrefix(ln, "- ") {
				inPaths = false
			}
		}
	}
	if len(agents) == 0 {
		drv.Broken("README.md documents no supported agents (format changed?)")
	}
	for _, a := range agents {
		if a.Project == "" || a.User == "" {
			drv.Broken("README.md documents no installation path for %q", a.Display)
		}
	}
	return agents
}

type realEntry struct {
	Mode fs.FileMode
	Dir  bool
	Data string
}

func snapshotReal(root string) map[string]realEntry {
	m := map[string]realEntry{}
	_ = filepath.Walk(root, func(p string, info os.FileInfo, err error) error {
		if err != nil {
			return nil
		}
		rel, _ := filepath.Rel(root, p)
		e := realEntry{Mode: info.Mode().Perm(), Dir: info.IsDir()}
		if info.Mode().IsRegular() {
			b, _ := os.ReadFile(p)
			e.Data = string(b)
		}
		m[rel] = e
		return nil
	})
	return m
}

func (b *build) buildCLI() {
	if b.kessoku != "" {
		return
	}
	// a pristine second copy: the first one has its llmsetup imports redirected
	pristine := filepath.Join(b.scratch, "pristine")
	drv.CopyRepo(pristine)
	bin := filepath.Join(b.scratch, "kessoku")
	r := drv.Run(pristine, 10*time.Minute, nil, "go", "build", "-o", bin, "./cmd/kessoku")
	if r.Err != nil {
		drv.Broken("building cmd/kessoku from the working tree failed:\n%s", r.Out)
	}
	b.kessoku = bin
	_ = os.RemoveAll(filepath.Join(pristine, ".cache"))
}

type realCase struct {
	Agent string `json:"agent"`
	Path  string `json:"path"` // "", "rel", "abs"
	User  bool   `json:"user"`
	Pre   string `json:"pre"` // fresh | older
}

func loadSkillReal(dir string) (map[string]string, []string) {
	m := map[string]string{}
	var rels []string
	_ = filepath.Walk(dir, func(p string, info os.FileInfo, err error) error {
		if err != nil || info.IsDir() {
			return nil
		}
		b, _ := os.ReadFile(p)
		rel, _ := filepath.Rel(dir, p)
		m[rel] = string(b)
		rels = append(rels, rel)
		return nil
	})
	sort.Strings(rels)
	if len(rels) == 0 {
		drv.Broken("skill tree %s is empty", dir)
	}
	return m, rels
}

// runRealCase executes the real binary once in a private directory and applies the C16 oracle.
func (b *build) runRealCase(doc []docAgent, c realCase, n int) (sig, detail string) {
	skill, rels := loadSkillReal(filepath.Join(b.scratch, "pristine", "internal", "llmsetup", "skills", "kessoku-di"))
	root := filepath.Join(b.scratch, "real", fmt.Sprint(n))
	_ = os.RemoveAll(root)
	home, cwd, abs := filepath.Join(root, "home"), filepath.Join(root, "cwd", "proj"), filepath.Join(root, "abs", "skills")
	for _, d := range []string{home, cwd} {
		if err := os.MkdirAll(d, 0o755); err != nil {
			drv.Broken("%v", err)
		}
	}
	defer os.RemoveAll(root)
	var a *docAgent
	for i := range doc {
		if doc[i].CLI == c.Agent {
			a = &doc[i]
		}
	}
	args := []string{"llm-setup", c.Agent}
	var base string
	switch {
	case c.Path == "rel":
		args = append(args, "--path", "custom/dir")
		base = filepath.Join(cwd, "custom/dir")
	case c.Path == "odd":
		// an unusual but valid relative path: dot segments, a space, a component that is just "~"
		args = append(args, "--path", "./a b/../~/x")
		base = filepath.Join(cwd, "~", "x")
	case c.Path == "named":
		// the last path element is the name of the skill directory itself: the skill still goes one level below it
		args = append(args, "--path", "vendor/kessoku-di")
		base = filepath.Join(cwd, "vendor", "kessoku-di")
	case c.Path == "tilde":
		// a relative path whose FIRST element is "~": it names a directory called "~" under the
		// current directory. The tail re-enters this case's private directory from one level above a
		// home directory such as /root, so that a build that expands the tilde writes inside the
		// scratch area too (at <root>/tildeesc instead of <cwd>/<root>/tildeesc).
		esc := "~/../" + strings.TrimPrefix(root, "/") + "/tildeesc"
		args = append(args, "--path", esc)
		base = filepath.Join(cwd, esc)
	case c.Path == "abs":
		args = append(args, "--path", abs)
		base = abs
	case c.User:
		base = filepath.Join(home, a.User)
	default:
		base = filepath.Join(cwd, a.Project)
	}
	if c.User {
		args = append(args, "--user")
	}
	dest := filepath.Join(base, "kessoku-di")
	shown := dest // what the success message is expected to name
	if c.Pre == "linked" {
		// the base directory is a symlink into another directory (dotfiles checkout): install through it
		target := filepath.Join(root, "dotfiles", "skills")
		_ = os.MkdirAll(target, 0o755)
		_ = os.MkdirAll(filepath.Dir(base), 0o755)
		_ = os.RemoveAll(base)
		if err := os.Symlink(target, base); err != nil {
			drv.Broken("symlink: %v", err)
		}
		dest = filepath.Join(target, "kessoku-di")
	}
	_ = os.WriteFile(filepath.Join(cwd, "main.go"), []byte("package main\n"), 0o644)
	_ = os.WriteFile(filepath.Join(home, ".profile"), []byte("x\n"), 0o600)
	if c.Pre == "older" {
		for i, rel := range rels {
			p := filepath.Join(dest, rel)
			_ = os.MkdirAll(filepath.Dir(p), 0o755)
			content := []byte("OLD " + rel)
			if i%2 == 1 {
				content = []byte(skill[rel]) // same bytes, private mode: must still end up 0644
			}
			_ = os.WriteFile(p, content, 0o600)
			_ = os.Chmod(p, 0o600)
		}
		_ = os.WriteFile(filepath.Join(dest, "notes.txt"), []byte("mine"), 0o600)
		_ = os.MkdirAll(filepath.Join(base, "other-skill"), 0o755)
		_ = os.WriteFile(filepath.Join(base, "other-skill", "SKILL.md"), []byte("other"), 0o640)
	}
	pre := snapshotReal(root)
	// half of the runs happen under a restrictive umask: the documented mode 0644 must not depend on it
	um := "022"
	if n%2 == 1 {
		um = "077"
	}
	quoted := make([]string, 0, len(args)+1)
	for _, a := range append([]string{b.kessoku}, args...) {
		quoted = append(quoted, "'"+strings.ReplaceAll(a, "'", `'\''`)+"'")
	}
	// a third of the runs happen in a session that sets the XDG base directories and TMPDIR (inside
	// this case's private root, so that anything written there shows up in the snapshot)
	envv := []string{"HOME=" + home, "XDG_CONFIG_HOME=", "XDG_DATA_HOME=", "XDG_CACHE_HOME="}
	if n%3 == 2 {
		envv = []string{"HOME=" + home, "XDG_CONFIG_HOME=" + filepath.Join(root, "xdg", "config"), "XDG_DATA_HOME=" + filepath.Join(root, "xdg", "data"), "XDG_CACHE_HOME=" + filepath.Join(root, "xdg", "cache")}
	}
	r := drv.Run(cwd, 2*time.Minute, envv, "sh", "-c", "umask "+um+"; exec "+strings.Join(quoted, " "))
	post := snapshotReal(root)
	if r.Code == -2 {
		drv.Broken("real CLI run timed out: %v", args)
	}
	if r.Code != 0 {
		return "real_cli_failed", fmt.Sprintf("kessoku %s exited %d: %s", strings.Join(args, " "), r.Code, strings.TrimSpace(string(r.Out)))
	}
	destRel, _ := filepath.Rel(root, dest)
	for _, rel := range rels {
		e, ok := post[filepath.Join(destRel, rel)]
		switch {
		case !ok:
			return "tree_incomplete", fmt.Sprintf("%s missing under %s after kessoku %s", rel, dest, strings.Join(args, " "))
		case e.Data != skill[rel]:
			return "tree_incomplete", fmt.Sprintf("%s differs from the skill tree", rel)
		case e.Mode != 0o644:
			return "tree_incomplete", fmt.Sprintf("%s has mode %o", rel, e.Mode)
		}
	}
	for p, e := range post {
		old, had := pre[p]
		if had && old == e {
			continue
		}
		inside := p == destRel || strings.HasPrefix(p, destRel+string(filepath.Separator))
		if inside {
			if !had && !e.Dir {
				rel, _ := filepath.Rel(destRel, p)
				if _, want := skill[rel]; !want {
					return "extra_file", p + " is not part of the skill tree"
				}
			}
			continue
		}
		if !had && e.Dir && strings.HasPrefix(destRel, p+string(filepath.Separator)) {
			continue
		}
		return "wrote_outside", fmt.Sprintf("%s created or modified by kessoku %s", p, strings.Join(args, " "))
	}
	for p := range pre {
		if _, ok := post[p]; !ok {
			if !(p == destRel || strings.HasPrefix(p, destRel+string(filepath.Separator))) {
				return "removed_outside", p
			}
		}
	}
	if !strings.Contains(string(r.Out), shown) {
		return "reported_path_wrong", fmt.Sprintf("output %q does not name %s", strings.TrimSpace(string(r.Out)), shown)
	}
	return "", ""
}

var reHelpCmd = regexp.MustCompile(`(?m)^\s+llm-setup ([a-z0-9-]+)\s`)

// realCLI runs the real binary for every agent x flag combination on the real filesystem and
// compares the offered subcommands with the documentation.
func (b *build) realCLI(out *drv.Outcome) map[string]any {
	b.buildCLI()
	doc := parseReadme(filepath.Join(b.scratch, "pristine", "README.md"))
	info := map[string]any{"runs": 0}
	help := drv.Run(b.scratch, time.Minute, nil, b.kessoku, "llm-setup", "--help")
	offered := map[string]bool{}
	for _, m := range reHelpCmd.FindAllStringSubmatch(string(help.Out), -1) {
		offered[m[1]] = true
	}
	if len(offered) == 0 {
		// kong prints "llm-setup <name> [flags]"; fall back to scanning the whole text for documented names
		for _, a := range doc {
			if strings.Contains(string(help.Out), "llm-setup "+a.CLI) {
				offered[a.CLI] = true
			}
		}
	}
	var offeredList []string
	for k := range offered {
		offeredList = append(offeredList, k)
	}
	sort.Strings(offeredList)
	info["subcommands_offered"] = offeredList
	add := func(sig, detail string, c realCase) {
		raw, _ := json.MarshalIndent(map[string]any{"engine": "realcli", "property": "C16", "signature": sig, "detail": detail, "case": c}, "", " ")
		out.Add(drv.Violation{Property: "C16", Signature: "real:" + sig, Detail: detail, Replay: raw})
	}
	for _, a := range doc {
		if !offered[a.CLI] {
			add("subcommand_missing", "kessoku llm-setup --help does not offer documented agent "+a.CLI, realCase{Agent: a.CLI})
		}
		delete(offered, a.CLI)
	}
	for k := range offered {
		add("subcommand_undocumented", "kessoku llm-setup offers "+k+" which README does not document", realCase{Agent: k})
	}
	var cases []realCase
	for _, a := range doc {
		for _, f := range []realCase{{}, {User: true}, {Path: "rel"}, {Path: "abs"}, {Path: "rel", User: true}, {Path: "odd"}, {Path: "named"}, {Path: "tilde"}, {Path: "tilde", User: true}} {
			pres := []string{"fresh", "older"}
			if f.Path != "tilde" && f.Path != "odd" && f.Path != "named" {
				pres = append(pres, "linked")
			}
			for _, pre := range pres {
				c := f
				c.Agent, c.Pre = a.CLI, pre
				cases = append(cases, c)
			}
		}
	}
	sigs := make([][2]string, len(cases))
	drv.Parallel(len(cases), drv.Workers(), func(i int) {
		s, d := b.runRealCase(doc, cases[i], i)
		sigs[i] = [2]string{s, d}
	})
	for i, s := range sigs {
		if s[0] != "" {
			add(s[0], s[1], cases[i])
		}
	}
	info["runs"] = len(cases)
	info["matrix"] = fmt.Sprintf("%d agents x 9 flag combinations (default, --user, --path rel/abs, --path+--user, odd relative path, path ending in the skill directory name, relative path starting with ~ with and without --user) x 2 prior states, real binary, real filesystem, private HOME and cwd", len(doc))
	return info
}

// replayReal re-runs one real-CLI case from a replay file.
func (b *build) replayReal(raw []byte) int {
	var v struct {
		Signature string   `json:"signature"`
		Case      realCase `json:"case"`
	}
	if err := json.Unmarshal(raw, &v); err != nil {
		drv.Broken("bad replay file: %v", err)
	}
	out := drv.NewOutcome("C16")
	out.Findings = nil
	if v.Signature == "subcommand_missing" || v.Signature == "subcommand_undocumented" {
		b.realCLI(out)
	} else {
		b.buildCLI()
		doc := parseReadme(filepath.Join(b.scratch, "pristine", "README.md"))
		if s, d := b.runRealCase(doc, v.Case, 0); s != "" {
			raw2, _ := json.Marshal(v)
			out.Add(drv.Violation{Property: "C16", Signature: "real:" + s, Detail: d, Replay: raw2})
		}
	}
	for _, n := range out.New {
		if n.Signature == "real:"+v.Signature {
			fmt.Printf("replay: reproduces %s :: %s\n", n.Signature, n.Detail)
			return drv.ExitViolation
		}
	}
	fmt.Println("replay: the violation does NOT reproduce on this tree")
	return drv.ExitOK
}

// straceCrossCheck is implemented in strace.go.
