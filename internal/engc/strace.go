package engc

import (
	"encoding/json"
	"fmt"
	"os"
	"os/exec"
	"path/filepath"
	"regexp"
	"sort"
	"strings"
	"sync"
	"time"

	"verif/internal/drv"
)

// The real-kernel cross-check: the real binary on a real directory, with strace killing
// the process at, or failing, the N-th occurrence of each filesystem system call. Same
// oracle as the simulated disk. It validates that simos does not flatter the installer.

type straceCase struct {
	Scenario string `json:"scenario"` // fresh-default | older-user | fresh-path
	Syscall  string `json:"syscall"`
	When     int    `json:"when"`
	Kind     string `json:"kind"` // kill | eio | enospc
}

var straceSyscalls = []string{"mkdirat", "openat", "write", "fsync", "close", "fchmodat", "renameat", "unlinkat", "newfstatat"}

type straceScenario struct {
	name  string
	agent string
	args  []string
	older bool
}

var straceScenarios = []straceScenario{
	{"fresh-default", "claude-code", nil, false},
	{"older-user", "opencode", []string{"--user"}, true},
	{"older-path", "goose", []string{"--path", "custom/dir"}, true},
}

type straceRun struct {
	exit     int
	killed   bool
	injected bool
	pre      map[string]realEntry
	post     map[string]realEntry
	dest     string // relative to root
	out      string
	root     string
}

// runStrace sets up the scenario in a private directory and runs the real binary under strace.
func (b *build) runStrace(doc []docAgent, sc straceScenario, c *straceCase, id string, rels []string, keep bool) *straceRun {
	root := filepath.Join(b.scratch, "strace", id)
	_ = os.RemoveAll(root)
	home, cwd := filepath.Join(root, "home"), filepath.Join(root, "cwd")
	_ = os.MkdirAll(home, 0o755)
	_ = os.MkdirAll(cwd, 0o755)
	var a *docAgent
	for i := range doc {
		if doc[i].CLI == sc.agent {
			a = &doc[i]
		}
	}
	if a == nil {
		drv.Broken("strace cross-check: agent %s is not documented", sc.agent)
	}
	base := filepath.Join(cwd, a.Project)
	for i, arg := range sc.args {
		if arg == "--user" {
			base = filepath.Join(home, a.User)
		}
		if arg == "--path" {
			base = filepath.Join(cwd, sc.args[i+1])
		}
	}
	dest := filepath.Join(base, "kessoku-di")
	if sc.older {
		for i, rel := range rels {
			p := filepath.Join(dest, rel)
			_ = os.MkdirAll(filepath.Dir(p), 0o755)
			_ = os.WriteFile(p, []byte("OLD "+rel+"\n"), []os.FileMode{0o600, 0o644, 0o444}[i%3])
		}
		_ = os.WriteFile(filepath.Join(dest, ".tmp-123456"), []byte("leftover of an earlier crash"), 0o600)
		_ = os.WriteFile(filepath.Join(dest, "notes.txt"), []byte("mine"), 0o600)
	}
	r := &straceRun{root: root}
	r.dest, _ = filepath.Rel(root, dest)
	r.pre = snapshotReal(root)
	args := []string{"-f", "-o", filepath.Join(root + ".trace")}
	if c != nil {
		spec := fmt.Sprintf("inject=%s:when=%d:", c.Syscall, c.When)
		switch c.Kind {
		case "kill":
			spec += "signal=SIGKILL"
		case "eio":
			spec += "error=EIO"
		case "enospc":
			spec += "error=ENOSPC"
		}
		args = append(args, "-e", "trace="+c.Syscall, "-e", spec)
	} else {
		args = append(args, "-e", "trace="+strings.Join(straceSyscalls, ","))
	}
	args = append(args, b.kessoku, "llm-setup", sc.agent)
	args = append(args, sc.args...)
	res := drv.Run(cwd, 2*time.Minute, []string{"HOME=" + home, "GOMAXPROCS=1"}, "strace", args...)
	if res.Code == -2 {
		drv.Broken("strace run timed out")
	}
	r.exit = res.Code
	r.out = string(res.Out)
	tr, _ := os.ReadFile(root + ".trace")
	r.injected = strings.Contains(string(tr), "(INJECTED)")
	r.killed = strings.Contains(string(tr), "+++ killed by SIGKILL +++")
	r.post = snapshotReal(root)
	if !keep {
		_ = os.Remove(root + ".trace")
	}
	return r
}

// judge applies the C15 oracle to a real tree.
func judgeReal(r *straceRun, skill map[string]string, rels []string, crashed bool) (string, string) {
	sep := string(filepath.Separator)
	for _, rel := range rels {
		p := filepath.Join(r.dest, rel)
		po, ok := r.post[p]
		pr, had := r.pre[p]
		switch {
		case !ok:
			if had {
				return "kernel:dest_removed", p + " existed before and is gone"
			}
		case had && pr == po:
		case !po.Dir && po.Data == skill[rel]:
			if po.Mode != 0o644 {
				return "kernel:wrong_mode", fmt.Sprintf("%s has the new content but mode %o", p, po.Mode)
			}
		default:
			if crashed {
				return "kernel:torn_destination", fmt.Sprintf("%s is neither absent, old nor new (%d bytes, mode %o)", p, len(po.Data), po.Mode)
			}
			return "kernel:dest_damaged_after_error", fmt.Sprintf("%s is neither old nor new (%d bytes)", p, len(po.Data))
		}
	}
	if crashed {
		return "", ""
	}
	complete := true
	for _, rel := range rels {
		po, ok := r.post[filepath.Join(r.dest, rel)]
		if !ok || po.Data != skill[rel] || po.Mode != 0o644 {
			complete = false
		}
	}
	if r.exit == 0 {
		if !complete {
			return "kernel:error_not_reported", "a system call failed, the CLI exited 0 and the tree is incomplete"
		}
		return "", ""
	}
	for p := range r.post {
		if strings.HasPrefix(filepath.Base(p), ".tmp-") && strings.HasPrefix(p, r.dest+sep) || strings.HasPrefix(filepath.Base(p), ".tmp-") && filepath.Dir(p) == r.dest {
			if _, had := r.pre[p]; !had {
				return "kernel:tmp_left_after_error", "temporary file " + p + " left behind after an injected failure"
			}
		}
	}
	return "", ""
}

var reTraceLine = regexp.MustCompile(`^(\d+)\s+([a-z0-9_]+)\(`)

func (b *build) straceCrossCheck(out *drv.Outcome, seed uint64) map[string]any {
	if _, err := exec.LookPath("strace"); err != nil {
		return map[string]any{"available": false, "reason": "strace not installed"}
	}
	b.buildCLI()
	doc := parseReadme(filepath.Join(b.scratch, "pristine", "README.md"))
	skill, rels := loadSkillReal(filepath.Join(b.scratch, "pristine", "internal", "llmsetup", "skills", "kessoku-di"))
	info := map[string]any{"available": true}
	var cases []straceCase
	counts := map[string]map[string]int{}
	for _, sc := range straceScenarios {
		base := b.runStrace(doc, sc, nil, "base-"+sc.name, rels, true)
		if base.exit != 0 {
			// ptrace may be unavailable in this sandbox: the cross-check is then informational only
			return map[string]any{"available": false, "reason": "baseline run under strace failed: " + firstLine(base.out)}
		}
		tr, _ := os.ReadFile(base.root + ".trace")
		_ = os.Remove(base.root + ".trace")
		// strace counts when=N per thread and the Go runtime moves the installing goroutine between
		// threads, so N ranges over the total count; injections that did not fire are counted as such
		per := map[string]int{}
		for _, ln := range strings.Split(string(tr), "\n") {
			if m := reTraceLine.FindStringSubmatch(ln); m != nil {
				per[m[2]]++
			}
		}
		counts[sc.name] = per
		for _, s := range straceSyscalls {
			for n := 1; n <= per[s]; n++ {
				for _, k := range []string{"kill", "eio"} {
					cases = append(cases, straceCase{Scenario: sc.name, Syscall: s, When: n, Kind: k})
				}
				if s == "write" || s == "openat" || s == "mkdirat" {
					cases = append(cases, straceCase{Scenario: sc.name, Syscall: s, When: n, Kind: "enospc"})
				}
			}
		}
		_ = os.RemoveAll(base.root)
	}
	var mu sync.Mutex
	effective, reruns := map[string]int{}, 0
	type hit struct {
		c           straceCase
		sig, detail string
	}
	var hits []hit
	drv.Parallel(len(cases), drv.Workers(), func(i int) {
		c := cases[i]
		sig, detail, eff, rr := b.oneStraceCase(doc, c, fmt.Sprint("c", i), skill, rels)
		mu.Lock()
		defer mu.Unlock()
		if eff {
			effective[c.Kind+":"+c.Syscall]++
		}
		reruns += rr
		if sig != "" {
			hits = append(hits, hit{c, sig, detail})
		}
	})
	sort.Slice(hits, func(i, j int) bool { return fmt.Sprint(hits[i].c) < fmt.Sprint(hits[j].c) })
	for _, h := range hits {
		raw, _ := json.MarshalIndent(map[string]any{"engine": "strace", "property": "C15", "signature": h.sig, "detail": h.detail, "case": h.c}, "", " ")
		out.Add(drv.Violation{Property: "C15", Signature: h.sig + ":" + h.c.Syscall, Detail: fmt.Sprintf("real kernel, %s %s#%d in scenario %s: %s", h.c.Kind, h.c.Syscall, h.c.When, h.c.Scenario, h.detail), Replay: raw})
	}
	info["cases"] = len(cases)
	info["injections_effective_by_kind_and_syscall"] = effective
	info["reruns_after_kill_verified"] = reruns
	info["syscalls_of_fault_free_run"] = counts
	info["scenarios"] = []string{"fresh destination, project default", "older install + leftover .tmp + unrelated file, --user", "older install, --path relative"}
	return info
}

func firstLine(s string) string {
	if i := strings.IndexByte(s, '\n'); i >= 0 {
		return s[:i]
	}
	return s
}

func (b *build) oneStraceCase(doc []docAgent, c straceCase, id string, skill map[string]string, rels []string) (sig, detail string, effective bool, reruns int) {
	var sc straceScenario
	for _, s := range straceScenarios {
		if s.name == c.Scenario {
			sc = s
		}
	}
	r := b.runStrace(doc, sc, &c, id, rels, false)
	defer os.RemoveAll(r.root)
	crashed := c.Kind == "kill" && r.killed
	effective = crashed || (c.Kind != "kill" && r.injected)
	if !effective {
		return "", "", false, 0
	}
	sig, detail = judgeReal(r, skill, rels, crashed)
	if sig != "" || !crashed {
		return
	}
	// a later successful run completes the installation (same directory, no injection)
	home, cwd := filepath.Join(r.root, "home"), filepath.Join(r.root, "cwd")
	args := append([]string{"llm-setup", sc.agent}, sc.args...)
	again := drv.Run(cwd, 2*time.Minute, []string{"HOME=" + home}, b.kessoku, args...)
	post := snapshotReal(r.root)
	if again.Code != 0 {
		return "kernel:rerun_failed", "after the kill a normal run fails: " + firstLine(string(again.Out)), true, 0
	}
	for _, rel := range rels {
		po, ok := post[filepath.Join(r.dest, rel)]
		if !ok || po.Data != skill[rel] || po.Mode != 0o644 {
			return "kernel:rerun_incomplete", "after the kill a normal run leaves " + rel + " missing or wrong", true, 0
		}
	}
	return "", "", true, 1
}

func (b *build) replayStrace(raw []byte, file string) int {
	var v struct {
		Signature string     `json:"signature"`
		Case      straceCase `json:"case"`
	}
	if err := json.Unmarshal(raw, &v); err != nil {
		drv.Broken("bad replay file: %v", err)
	}
	b.buildCLI()
	doc := parseReadme(filepath.Join(b.scratch, "pristine", "README.md"))
	skill, rels := loadSkillReal(filepath.Join(b.scratch, "pristine", "internal", "llmsetup", "skills", "kessoku-di"))
	sig, detail, eff, _ := b.oneStraceCase(doc, v.Case, "replay", skill, rels)
	fmt.Printf("replay: strace %s %s#%d in %s: injected=%v signature=%q %s\n", v.Case.Kind, v.Case.Syscall, v.Case.When, v.Case.Scenario, eff, sig, detail)
	if sig == "" {
		fmt.Println("replay: the violation does NOT reproduce on this tree")
		return drv.ExitOK
	}
	fmt.Printf("VIOLATION property=C15 replay=%s\n", file)
	return drv.ExitViolation
}
