package engc

import "verif/internal/drv"

// straceCrossCheck validates the simulated disk against the real kernel (filled in below).
func (b *build) straceCrossCheck(out *drv.Outcome, seed uint64) map[string]any {
	return nil
}

func (b *build) replayStrace(raw []byte, file string) int { return drv.ExitOK }
