package progen

import (
	"fmt"
	"strings"
)

// Rand is a splitmix64 stream; every draw of a program comes from one of these.
type Rand struct{ s uint64 }

func NewRand(parts ...uint64) *Rand {
	r := &Rand{s: 0x2545f4914f6cdd1d}
	for _, p := range parts {
		r.s ^= p + 0x9e3779b97f4a7c15 + (r.s << 6) + (r.s >> 2)
		r.Next()
	}
	return r
}

func (r *Rand) Next() uint64 {
	r.s += 0x9e3779b97f4a7c15
	z := r.s
	z = (z ^ (z >> 30)) * 0xbf58476d1ce4e5b9
	z = (z ^ (z >> 27)) * 0x94d049bb133111eb
	return z ^ (z >> 31)
}

func (r *Rand) Intn(n int) int {
	if n <= 0 {
		return 0
	}
	return int(r.Next() % uint64(n))
}

func (r *Rand) Chance(num, den int) bool { return r.Intn(den) < num }

// Profile biases the draw towards what a property needs to see.
type Profile struct {
	Name             string
	MinAsyncFree     int  // at least this many needed input-free Async providers (C05)
	WantAsync        bool // at least one needed Async provider
	WantFallible     bool // at least one needed fallible provider
	NoFallible       bool
	MaxProviders     int
	Families         bool // render variants (Async subsets / Sets / orders) of the same DAG
	RiskyShapes      int  // per mille of programs that may use shapes known not to compile on the pinned tree
	AdversarialNames bool // engine B: names that collide with the allocator's
	CtxOdds          int  // >0: x/12 chance that a provider takes context.Context (default: 0..2 drawn per program)
}

type genState struct {
	curRet      int
	wideFanRoot bool
	r           *Rand
	sp          *Spec
	avail       []int // types that may be used as inputs (have a supplier or are designated arguments)
	plainS      bool
	plainI      bool
	ctxT        int
	names       []string
	prof        Profile
	risky       bool
	argOdds     int // 1 in argOdds inputs is a fresh injector parameter
	ctxProvided bool
}

func (g *genState) newType(k Kind) int {
	id := len(g.sp.Types)
	var name string
	switch k {
	case KPtr, KVal:
		name = fmt.Sprintf("T%d", id)
	case KStr:
		name = fmt.Sprintf("N%d", id)
	case KInt:
		name = fmt.Sprintf("K%d", id)
	case KIface:
		name = fmt.Sprintf("I%d", id)
	case KStructPtr, KStructVal:
		name = fmt.Sprintf("S%d", id)
	case KPlainStr:
		name = "string"
	case KPlainInt:
		name = "int"
	case KCtx:
		name = "Context"
	}
	if g.prof.AdversarialNames && (k == KPtr || k == KVal || k == KStr || k == KInt || k == KIface) && len(g.names) > 0 && g.r.Chance(1, 2) {
		name = g.names[0]
		g.names = g.names[1:]
	}
	g.sp.Types = append(g.sp.Types, Type{ID: id, Kind: k, Name: name, ImplBy: -1})
	return id
}

func (g *genState) freshValueKind() Kind {
	for {
		switch g.r.Intn(12) {
		case 0, 1, 2, 3, 4:
			return KPtr
		case 5, 6:
			return KVal
		case 7, 8:
			return KStr
		case 9:
			return KInt
		case 10:
			if !g.plainS {
				g.plainS = true
				return KPlainStr
			}
		case 11:
			if !g.plainI {
				g.plainI = true
				return KPlainInt
			}
		}
	}
}

func (g *genState) ctx() int {
	if g.ctxT < 0 {
		g.ctxT = g.newType(KCtx)
		if g.r.Chance(1, 6) {
			// the package spells the context through its own alias (type CtxAlias = context.Context)
			g.sp.Types[g.ctxT].Name = "CtxAlias"
		}
	}
	return g.ctxT
}

// pickInputs draws k distinct inputs with the shape's recency bias.
func (g *genState) pickInputs(k int, recency int) []int {
	var in []int
	seen := map[int]bool{}
	for tries := 0; len(in) < k && tries < 20; tries++ {
		var t int
		switch {
		case len(g.avail) == 0 || g.r.Chance(1, g.argOdds):
			// a type nobody supplies: becomes an injector parameter
			t = g.newType(g.freshValueKind())
			g.avail = append(g.avail, t)
		case recency > 0 && g.r.Chance(recency, 10):
			w := len(g.avail)
			lo := w - 3
			if lo < 0 {
				lo = 0
			}
			t = g.avail[lo+g.r.Intn(w-lo)]
		case recency < 0 && g.r.Chance(-recency, 10):
			hi := 3
			if hi > len(g.avail) {
				hi = len(g.avail)
			}
			t = g.avail[g.r.Intn(hi)]
		default:
			t = g.avail[g.r.Intn(len(g.avail))]
		}
		if seen[t] {
			continue
		}
		seen[t] = true
		in = append(in, t)
		// two arguments fed by ONE producer: a sibling result of a multi-value provider, the interface
		// bound to the same result, or simply the same type twice
		if sib := g.siblings(t); len(sib) > 0 && g.r.Chance(1, 4) {
			s := sib[g.r.Intn(len(sib))]
			if !seen[s] {
				seen[s] = true
				in = append(in, s)
			}
		} else if g.r.Chance(1, 20) && g.sp.Types[t].Kind != KCtx {
			in = append(in, t)
		}
	}
	return in
}

// siblings lists the other types the producer of t also supplies.
func (g *genState) siblings(t int) []int {
	var out []int
	for i := range g.sp.Providers {
		p := &g.sp.Providers[i]
		has := false
		for _, o := range p.Out {
			if o == t {
				has = true
			}
			for _, it := range g.sp.Types[o].Impl {
				if it == t {
					has = true
				}
			}
		}
		if !has {
			continue
		}
		for _, o := range p.Out {
			if o != t {
				out = append(out, o)
			}
			for _, it := range g.sp.Types[o].Impl {
				if it != t {
					out = append(out, it)
				}
			}
		}
	}
	return out
}

// tree builds a declaration backwards from the requested type: every provider is needed, leaves are
// input-free, a few results are shared (DAG). Such graphs are "tight": no unneeded provider, no spare pool.
func (g *genState) tree(budget *int, depth int, fallP int) int {
	r := g.r
	k := 0
	if *budget > 0 && depth < 4 && (depth == 0 || !r.Chance(1, 4)) {
		k = 1 + r.Intn(3)
	}
	var in []int
	for j := 0; j < k; j++ {
		switch {
		case len(g.avail) > 0 && r.Chance(1, 6):
			t := g.avail[r.Intn(len(g.avail))]
			dup := false
			for _, x := range in {
				if x == t {
					dup = true
				}
			}
			if !dup {
				in = append(in, t)
			}
		case r.Chance(1, 12):
			t := g.newType(g.freshValueKind())
			in = append(in, t) // an injector parameter
		default:
			*budget--
			in = append(in, g.tree(budget, depth+1, fallP))
		}
	}
	p := Provider{Name: fmt.Sprintf("P%d", len(g.sp.Providers)), Form: "func", In: in}
	kind := KPtr
	if depth > 0 && r.Chance(1, 3) {
		kind = g.freshValueKind()
	}
	out := g.newType(kind)
	p.Out = []int{out}
	if r.Chance(1, 6) {
		p.Out = append(p.Out, g.newType(g.freshValueKind()))
	}
	p.Fallible = r.Intn(6) < fallP
	g.sp.Providers = append(g.sp.Providers, p)
	g.avail = append(g.avail, p.Out...)
	return out
}

var adversarial = []string{"App", "Config", "Num", "Str", "Val", "Ctx", "Eg", "Err", "Err0", "Ch", "Zero", "FooCh", "Foo", "Foo0", "Context", "Errgroup", "Kessoku", "Flag", "Ptr", "Complex", "Arg0", "Result0", "App0", "AppCh", "Service", "Service0"}

// Gen draws one program.
func Gen(r *Rand, pkg string, prof Profile) *Spec {
	for attempt := 0; ; attempt++ {
		sp := genOnce(r, pkg, prof)
		if sp != nil {
			return sp
		}
		if attempt > 200 {
			panic("progen: cannot satisfy profile " + prof.Name)
		}
	}
}

func genOnce(r *Rand, pkg string, prof Profile) *Spec {
	g := &genState{r: r, sp: &Spec{Pkg: pkg}, ctxT: -1, prof: prof, argOdds: 10}
	g.risky = r.Intn(1000) < prof.RiskyShapes
	if prof.AdversarialNames {
		g.names = append([]string{}, adversarial...)
		for i := len(g.names) - 1; i > 0; i-- {
			j := r.Intn(i + 1)
			g.names[i], g.names[j] = g.names[j], g.names[i]
		}
	}
	maxP := prof.MaxProviders
	if maxP == 0 {
		maxP = 12
	}
	nProv := 1 + r.Intn(maxP)
	if r.Chance(1, 3) {
		nProv = 1 + r.Intn(4) // many small programs
	}
	shapes := []string{"random", "chain", "fan", "diamond", "syncroot", "joinsink", "layered", "layered", "layered", "tree", "tree", "ladder", "rails", "widefan"}
	shape := shapes[r.Intn(len(shapes))]
	g.sp.Shape = shape
	recency := 0
	if shape == "layered" {
		// a service graph: one or two roots, every other provider consumes results of earlier providers
		// (hardly any injector parameters), so that values fan out to several consumers in several pools
		nProv = 5 + r.Intn(8)
		g.argOdds = 40
		recency = 3
		if r.Chance(1, 5) && !prof.AdversarialNames {
			// now and then a large service graph: thresholds in the generator (bitsets, matching,
			// slice growth) are only crossed by declarations of this size
			nProv = 20 + r.Intn(21)
			g.sp.Large = true
		}
	}
	switch shape {
	case "chain":
		recency = 8
		if r.Chance(1, 3) && !prof.AdversarialNames {
			// a deep chain: dependency depth beyond any bound a generator is likely to hard-code (8, 16)
			nProv = 24 + r.Intn(12)
			recency = 10
			g.argOdds = 40
			g.sp.Large = true
		}
	case "fan", "syncroot":
		recency = -7
	case "diamond":
		recency = 4
	}
	fallP := r.Intn(5) // x/6 chance per provider
	if prof.NoFallible {
		fallP = 0
	} else if prof.WantFallible && fallP == 0 {
		fallP = 2
	}
	ctxP := r.Intn(3) // x/12 chance that a provider takes context.Context
	if prof.CtxOdds > 0 && r.Chance(1, 2) {
		ctxP = prof.CtxOdds
	}
	g.sp.MultiVarSets = r.Chance(1, 3)
	g.sp.SetsElsewhere = r.Chance(1, 4)
	treeRoot := -1
	if shape == "tree" {
		budget := 3 + r.Intn(8)
		treeRoot = g.tree(&budget, 0, fallP)
		nProv = 0
	}
	rails := shape == "rails" // the ladder in its tightest form: a root, two or three rails, every cross link
	if rails {
		shape = "ladder"
	}
	if shape == "ladder" {
		// two or three parallel chains whose steps also consume the previous step of a neighbour chain:
		// pools that consume each other's values without any cycle between providers
		chains := 2 + r.Intn(2)
		length := 2 + r.Intn(3)
		prev := make([]int, chains)
		var root int = -1
		if r.Chance(1, 2) || rails {
			rp := Provider{Name: fmt.Sprintf("P%d", len(g.sp.Providers)), Form: "func", Out: []int{g.newType(KPtr)}}
			g.sp.Providers = append(g.sp.Providers, rp)
			root = rp.Out[0]
			g.avail = append(g.avail, root)
		}
		for j := 0; j < length; j++ {
			cur := make([]int, chains)
			for c := 0; c < chains; c++ {
				p := Provider{Name: fmt.Sprintf("P%d", len(g.sp.Providers)), Form: "func"}
				if j == 0 {
					if root >= 0 && (r.Chance(2, 3) || rails) {
						p.In = []int{root}
					}
				} else {
					p.In = []int{prev[c]}
					if r.Chance(2, 3) || rails {
						p.In = append(p.In, prev[(c+1)%chains])
					}
				}
				p.Out = []int{g.newType(g.freshValueKind())}
				p.Fallible = r.Intn(6) < fallP
				g.sp.Providers = append(g.sp.Providers, p)
				g.avail = append(g.avail, p.Out...)
				cur[c] = p.Out[0]
			}
			prev = cur
		}
		// side branches off the root that stay independent of the ladder (they keep goroutine chains alive
		// whatever happens to the ladder's pools)
		for x := 0; x < 1+r.Intn(2); x++ {
			p := Provider{Name: fmt.Sprintf("P%d", len(g.sp.Providers)), Form: "func", Out: []int{g.newType(g.freshValueKind())}}
			if root >= 0 {
				p.In = []int{root}
			}
			g.sp.Providers = append(g.sp.Providers, p)
			g.avail = append(g.avail, p.Out...)
		}
		nProv = r.Intn(2)
	}
	if shape == "widefan" && prof.AdversarialNames {
		shape = "fan"
		g.sp.Shape = shape
	}
	if shape == "widefan" {
		// more than 16 services next to each other (input-free, or all fed by one synchronous root),
		// a few joins over them and a sink: more goroutine chains and more ready nodes than any
		// threshold a generator is likely to hard-code (8, 16)
		root := -1
		if r.Chance(1, 2) {
			rp := Provider{Name: fmt.Sprintf("P%d", len(g.sp.Providers)), Form: "func", Out: []int{g.newType(KPtr)}}
			g.sp.Providers = append(g.sp.Providers, rp)
			root = rp.Out[0]
			g.avail = append(g.avail, root)
			g.wideFanRoot = true
		}
		var svc []int
		for j, n := 0, 17+r.Intn(8); j < n; j++ {
			p := Provider{Name: fmt.Sprintf("P%d", len(g.sp.Providers)), Form: "func", Out: []int{g.newType(g.freshValueKind())}}
			if root >= 0 {
				p.In = []int{root}
			}
			p.Fallible = r.Intn(12) < fallP
			g.sp.Providers = append(g.sp.Providers, p)
			g.avail = append(g.avail, p.Out...)
			svc = append(svc, p.Out[0])
		}
		for j, n := 0, 1+r.Intn(3); j < n; j++ {
			a, b := svc[r.Intn(len(svc))], svc[r.Intn(len(svc))]
			p := Provider{Name: fmt.Sprintf("P%d", len(g.sp.Providers)), Form: "func", In: []int{a}, Out: []int{g.newType(g.freshValueKind())}}
			if b != a {
				p.In = append(p.In, b)
			}
			p.Fallible = r.Intn(6) < fallP
			g.sp.Providers = append(g.sp.Providers, p)
			g.avail = append(g.avail, p.Out...)
		}
		g.sp.Large = true
		nProv = 0
	}
	for i := 0; i < nProv; i++ {
		k := r.Intn(4)
		if shape == "joinsink" && i == nProv-1 {
			k = 2 + r.Intn(3)
		}
		if (shape == "fan" || shape == "syncroot") && i < 2 {
			k = 0
		}
		if r.Chance(1, 6) {
			k = 0
		}
		if shape == "layered" {
			k = 1 + r.Intn(3)
			if i < 1+r.Intn(2) {
				k = 0
			}
		}
		p := Provider{Name: fmt.Sprintf("P%d", len(g.sp.Providers)), Form: "func"}
		p.In = g.pickInputs(k, recency)
		ctxAliasAware := false
		if r.Intn(12) < ctxP {
			pos := r.Intn(len(p.In) + 1)
			p.In = append(p.In[:pos], append([]int{g.ctx()}, p.In[pos:]...)...)
			p.CtxAware = r.Chance(2, 3)
			if prof.CtxOdds > 0 {
				p.CtxAware = r.Chance(1, 2)
			}
			if g.sp.Types[g.ctx()].Expr() != "context.Context" {
				// a package that spells the context through an alias is a package of context-aware services
				p.CtxAware = r.Chance(3, 4)
				ctxAliasAware = p.CtxAware
			}
		}
		nOut := 1
		switch r.Intn(10) {
		case 0, 1:
			nOut = 2
		case 2:
			nOut = 3
		}
		var structOut []int
		for o := 0; o < nOut; o++ {
			if r.Chance(1, 9) {
				// a struct that is expanded into its fields
				k := KStructPtr
				if r.Chance(1, 3) {
					k = KStructVal
				}
				st := g.newType(k)
				nf := 1 + r.Intn(4)
				for f := 0; f < nf; f++ {
					ft := g.newType(g.freshValueKind())
					g.sp.Types[st].Fields = append(g.sp.Types[st].Fields, Field{Name: fmt.Sprintf("F%d", f), Type: ft, Exported: true})
				}
				if r.Chance(1, 2) {
					g.sp.Types[st].Fields = append(g.sp.Types[st].Fields, Field{Name: "hidden", Type: -1, Exported: false})
				}
				p.Out = append(p.Out, st)
				structOut = append(structOut, st)
			} else {
				p.Out = append(p.Out, g.newType(g.freshValueKind()))
			}
		}
		// the provider returns an interface AND a type implementing it; Bind on top must not displace the direct result
		if k0 := g.sp.Types[p.Out[0]].Kind; len(p.Out) >= 2 && g.sp.Types[p.Out[1]].Kind == KPtr && (k0 == KPtr || k0 == KVal || k0 == KStr || k0 == KInt) && len(g.sp.Types[p.Out[0]].Impl) == 0 && r.Chance(1, 10) {
			it := g.newType(KIface)
			g.sp.Types[it].ImplBy = p.Out[1]
			g.sp.Types[p.Out[1]].Impl = append(g.sp.Types[p.Out[1]].Impl, it)
			p.Out[0] = it // the type drawn first stays declared and unused
		}
		p.Fallible = r.Intn(6) < fallP
		if ctxAliasAware && !prof.NoFallible && r.Chance(1, 2) {
			p.Fallible = true // it reports ctx.Err() when its context is cancelled
		}
		p.ErrAlias = p.Fallible && r.Chance(1, 7)
		if r.Chance(1, 8) {
			p.Form = "lit"
		}
		g.sp.Providers = append(g.sp.Providers, p)
		pi := len(g.sp.Providers) - 1
		g.avail = append(g.avail, p.Out...)
		// interfaces bound to pointer results
		for oi, o := range p.Out {
			if g.sp.Types[o].Kind == KPtr && r.Chance(1, 5) {
				it := g.newType(KIface)
				g.sp.Types[it].ImplBy = o
				g.sp.Types[o].Impl = append(g.sp.Types[o].Impl, it)
				g.avail = append(g.avail, it)
				// a later result of the same provider implements the interface too: the first one supplies it
				for _, o2 := range p.Out[oi+1:] {
					if g.sp.Types[o2].Kind == KPtr && r.Chance(1, 2) {
						g.sp.Types[o2].Impl = append(g.sp.Types[o2].Impl, it)
					}
				}
				if r.Chance(1, 2) {
					// consumers see only the interface
					g.dropAvail(o)
				}
			}
		}
		_ = pi
		for _, st := range structOut {
			g.sp.Providers = append(g.sp.Providers, Provider{Name: fmt.Sprintf("X%d", len(g.sp.Providers)), Form: "struct", Struct: st, Out: nil})
			for _, f := range g.sp.Types[st].Fields {
				if f.Exported {
					g.avail = append(g.avail, f.Type)
				}
			}
			if r.Chance(1, 2) {
				g.dropAvail(st)
			}
		}
		// a provider of the context itself (base-context pattern): context.Context is then provided, not a parameter
		if !g.ctxProvided && !prof.AdversarialNames && r.Chance(1, 40) {
			g.ctxProvided = true
			cp := Provider{Name: fmt.Sprintf("P%d", len(g.sp.Providers)), Form: "func", Out: []int{g.ctx()}}
			if len(g.avail) > 0 && r.Chance(1, 2) {
				cp.In = []int{g.avail[r.Intn(len(g.avail))]}
				if g.sp.Types[cp.In[0]].Kind == KCtx {
					cp.In = nil
				}
			}
			g.sp.Providers = append(g.sp.Providers, cp)
			if ctxP == 0 {
				ctxP = 2
			}
		}
		// constants
		if r.Chance(1, 8) {
			vt := g.newType([]Kind{KStr, KInt, KPtr, KVal}[r.Intn(4)])
			v := Provider{Name: fmt.Sprintf("V%d", len(g.sp.Providers)), Form: "value", Out: []int{vt}}
			if r.Chance(1, 3) {
				// the constant lives in a package-level variable named like the local the generator would pick
				v.VarRef = lowerFirst(g.sp.Types[vt].Name)
				switch v.VarRef {
				case "context", "kessoku", "simrt", "ttemplate", "htemplate", "mrand", "mrand2", "string", "int", "error":
					v.VarRef = "" // would collide with an import of the package's own files
				}
			}
			g.sp.Providers = append(g.sp.Providers, v)
			g.avail = append(g.avail, vt)
			if g.sp.Types[vt].Kind == KPtr && r.Chance(1, 3) {
				it := g.newType(KIface)
				g.sp.Types[it].ImplBy = vt
				g.sp.Types[vt].Impl = append(g.sp.Types[vt].Impl, it)
				g.avail = append(g.avail, it)
			}
		}
	}

	// engine B: foreign types whose packages share a name (template/template, rand/rand): import aliases must be stable
	var extIn []int
	if prof.AdversarialNames && r.Chance(2, 3) {
		pair := 2 * r.Intn(len(ExtTypes)/2)
		for k := 0; k < 2; k++ {
			e := ExtTypes[pair+k]
			id := len(g.sp.Types)
			g.sp.Types = append(g.sp.Types, Type{ID: id, Kind: KExt, Name: e.Alias + "." + e.Type, ImplBy: -1})
			if r.Chance(1, 2) {
				g.sp.Providers = append(g.sp.Providers, Provider{Name: fmt.Sprintf("P%d", len(g.sp.Providers)), Form: "func", Out: []int{id}})
			}
			extIn = append(extIn, id)
			g.avail = append(g.avail, id)
		}
	}

	// most programs end in a sink that joins several branches, so that the needed closure is wide
	sinkOut := treeRoot
	if treeRoot < 0 && len(g.sp.Providers) >= 2 && (r.Chance(3, 4) || shape == "widefan") {
		var outs []int
		for i := range g.sp.Providers {
			p := &g.sp.Providers[i]
			if p.Form == "struct" {
				for _, f := range g.sp.Types[p.Struct].Fields {
					if f.Exported && r.Chance(1, 2) {
						outs = append(outs, f.Type)
					}
				}
				continue
			}
			if len(p.Out) > 0 {
				o := p.Out[r.Intn(len(p.Out))]
				if impl := g.sp.Types[o].Impl; len(impl) > 0 && r.Chance(1, 2) {
					o = impl[0]
				}
				outs = append(outs, o)
			}
		}
		for i := len(outs) - 1; i > 0; i-- {
			j := r.Intn(i + 1)
			outs[i], outs[j] = outs[j], outs[i]
		}
		k := 2 + r.Intn(3)
		if shape == "layered" && r.Chance(1, 3) {
			k = 3 + r.Intn(6) // a wide sink: consumes most of what the graph produces
		}
		if shape == "widefan" {
			k = 8 + r.Intn(20)
		}
		if shape == "ladder" {
			k = 10 // the sink consumes every value the ladder produces (capped by what exists)
			if r.Chance(1, 4) && g.sp.Shape != "rails" {
				k = 3 + r.Intn(6)
			}
		}
		if k > len(outs) {
			k = len(outs)
		}
		if k >= 2 {
			sk := Provider{Name: fmt.Sprintf("P%d", len(g.sp.Providers)), Form: "func", In: append([]int{}, outs[:k]...)}
			for _, e := range extIn {
				dup := false
				for _, in := range sk.In {
					if in == e {
						dup = true
					}
				}
				if !dup {
					sk.In = append(sk.In, e)
				}
			}
			kind := KPtr
			if r.Chance(1, 5) {
				kind = g.freshValueKind()
			}
			sinkOut = g.newType(kind)
			sk.Out = []int{sinkOut}
			sk.Fallible = r.Intn(6) < fallP
			g.sp.Providers = append(g.sp.Providers, sk)
			g.avail = append(g.avail, sinkOut)
		}
	}

	// requested type: biased towards supplied, nillable types with a large needed closure
	supplied := map[int]bool{}
	for i := range g.sp.Providers {
		p := &g.sp.Providers[i]
		for _, o := range p.Out {
			supplied[o] = true
			for _, it := range g.sp.Types[o].Impl {
				supplied[it] = true
			}
		}
		if p.Form == "struct" {
			for _, f := range g.sp.Types[p.Struct].Fields {
				if f.Exported {
					supplied[f.Type] = true
				}
			}
		}
	}
	var cands, argCands []int
	for i := range g.sp.Types {
		t := &g.sp.Types[i]
		if t.Kind == KCtx {
			continue
		}
		if supplied[i] {
			cands = append(cands, i)
		} else {
			argCands = append(argCands, i)
		}
	}
	if len(cands) == 0 {
		return nil
	}
	// size of the needed closure of every candidate, with every provider declared
	full := Injector{Name: "probe"}
	for pi := range g.sp.Providers {
		u := Use{Prov: pi}
		for _, o := range g.sp.Providers[pi].Out {
			u.Bind = append(u.Bind, g.sp.Types[o].Impl...)
		}
		full.Items = append(full.Items, Item{Use: &u})
	}
	weight := func(t int) int {
		full.Ret = t
		ref := Evaluate(g.sp, &full, "w")
		if ref.Invalid != "" {
			return -1
		}
		return ref.NeededUses*2 + ref.FieldReads
	}
	pickRet := func() int {
		if sinkOut >= 0 && (r.Chance(4, 5) || treeRoot >= 0 || g.sp.Shape == "widefan") {
			return sinkOut
		}
		if len(argCands) > 0 && r.Chance(1, 50) {
			return argCands[r.Intn(len(argCands))] // the requested type itself is a parameter
		}
		best, bestW := -1, -2
		k := 1 + r.Intn(4)
		if r.Chance(3, 5) {
			k = 2 * len(cands) // (almost) the type with the largest needed closure
		}
		for tries := 0; tries < k; tries++ {
			t := cands[r.Intn(len(cands))]
			if !g.sp.Types[t].Nillable() && !g.risky && !r.Chance(1, 4) {
				continue
			}
			if w := weight(t); w > bestW {
				best, bestW = t, w
			}
		}
		if best < 0 {
			best = cands[r.Intn(len(cands))]
		}
		return best
	}

	// now and then one constructor is enormous: more than 64 parameters, most of them plain
	// injector arguments, its real dependencies last
	if r.Chance(1, 16) && !prof.AdversarialNames {
		made := map[int]bool{}
		for pi := range g.sp.Providers {
			for _, o := range g.sp.Providers[pi].Out {
				made[o] = true
			}
		}
		// how many providers deep a produced type is (providers are listed in dependency order)
		depth := map[int]int{}
		for pi := range g.sp.Providers {
			d := 1
			for _, in := range g.sp.Providers[pi].In {
				if depth[in]+1 > d {
					d = depth[in] + 1
				}
			}
			for _, o := range g.sp.Providers[pi].Out {
				depth[o] = d
			}
		}
		var cands, deep []int
		for pi := range g.sp.Providers {
			p := &g.sp.Providers[pi]
			if p.Form != "func" || len(p.In) < 1 || len(p.In) > 6 {
				continue
			}
			for _, in := range p.In {
				if made[in] { // it really waits for another provider
					cands = append(cands, pi)
					if depth[in] >= 2 { // and that provider waits for one itself
						deep = append(deep, pi)
					}
					break
				}
			}
		}
		if len(deep) > 0 {
			cands = deep
		}
		if len(cands) > 0 {
			pi := cands[r.Intn(len(cands))]
			var pre []int
			for j, n := 0, 64+r.Intn(3); j < n; j++ {
				pre = append(pre, g.newType([]Kind{KStr, KInt, KVal}[r.Intn(3)]))
			}
			g.sp.Providers[pi].In = append(pre, g.sp.Providers[pi].In...)
			g.sp.Wide = true
		}
	}

	nInj := 1
	if prof.Families {
		nInj = 2 + r.Intn(5) // the same DAG under several Async subsets, Set groupings and orders
	} else if r.Chance(1, 3) {
		nInj = 1 + r.Intn(3)
	}
	g.sp.NFiles = 1
	if nInj > 1 {
		g.sp.NFiles = 1 + r.Intn(nInj)
		if !g.risky && g.sp.NFiles < nInj && r.Chance(3, 4) {
			g.sp.NFiles = nInj // one injector per file keeps a non-compiling sibling from hiding the others
		}
	}
	g.sp.OneInvoke = g.sp.NFiles > 1 && r.Chance(1, 6)

	ret := pickRet()
	base := g.baseUses(ret)
	for k := 0; k < nInj; k++ {
		if !prof.Families && k > 0 {
			ret = pickRet()
			base = g.baseUses(ret)
		}
		inj := Injector{Name: fmt.Sprintf("Init%d", k), File: k % g.sp.NFiles, Ret: ret, Family: 0}
		if prof.AdversarialNames && len(g.names) > 0 && r.Chance(1, 2) {
			inj.Name = lowerFirst(g.names[0])
			if r.Chance(1, 2) {
				inj.Name = g.names[0]
			}
			g.names = g.names[1:]
		}
		g.curRet = ret
		uses := g.variant(base, k)
		inj.Items = g.group(uses, k)
		g.sp.Injectors = append(g.sp.Injectors, inj)
	}
	// engine B: one more file composes the first file's generated injector into a larger one
	if prof.AdversarialNames && len(g.sp.Injectors) > 0 && strings.HasPrefix(g.sp.Injectors[0].Name, "Init") && r.Chance(1, 3) {
		in := &g.sp.Injectors[0]
		in.File = 0
		if t := &g.sp.Types[in.Ret]; t.Kind != KCtx {
			w := g.newType(KPtr)
			wp := Provider{Name: fmt.Sprintf("P%d", len(g.sp.Providers)), Form: "func", In: []int{in.Ret}, Out: []int{w}}
			g.sp.Providers = append(g.sp.Providers, wp)
			g.sp.Compose = &ComposeDef{File: "k9.go", Outer: "InitOuter", Inner: in.Name, Wrapper: wp.Name, Requested: g.sp.Types[w].Expr()}
		}
	}
	// profile requirements are judged on the reference evaluation of the first injector
	ok := false
	for i := range g.sp.Injectors {
		ref := Evaluate(g.sp, &g.sp.Injectors[i], "x")
		if ref.Invalid != "" {
			return nil
		}
		if len(ref.AsyncFree) >= prof.MinAsyncFree && (!prof.WantAsync || len(ref.AsyncAll) > 0) && (!prof.WantFallible || ref.HasErr) {
			ok = true
		}
	}
	if !ok {
		return nil
	}
	return g.sp
}

func lowerFirst(s string) string {
	if s == "" {
		return s
	}
	b := []byte(s)
	if b[0] >= 'A' && b[0] <= 'Z' {
		b[0] += 'a' - 'A'
	}
	return string(b)
}

func (g *genState) dropAvail(t int) {
	for i, a := range g.avail {
		if a == t {
			g.avail = append(g.avail[:i], g.avail[i+1:]...)
			return
		}
	}
}

// baseUses chooses which providers appear in the declaration: everything needed for ret, plus
// a random selection of unneeded ones; occasionally a needed provider is left out on purpose,
// which turns its result types into injector parameters.
func (g *genState) baseUses(ret int) []Use {
	r := g.r
	var uses []Use
	for pi := range g.sp.Providers {
		p := &g.sp.Providers[pi]
		if p.Form == "struct" {
			continue
		}
		suppliesRet := false
		for _, o := range p.Out {
			if o == ret {
				suppliesRet = true
			}
			for _, it := range g.sp.Types[o].Impl {
				if it == ret {
					suppliesRet = true
				}
			}
		}
		if r.Chance(1, 14) && (!suppliesRet || r.Chance(1, 20)) {
			continue // left out: its outputs become parameters (or it simply is not there)
		}
		u := Use{Prov: pi}
		for _, o := range p.Out {
			for _, it := range g.sp.Types[o].Impl {
				if r.Chance(5, 6) {
					u.Bind = append(u.Bind, it)
				}
			}
		}
		u.BindOuter = r.Chance(1, 2)
		uses = append(uses, u)
	}
	// struct expansions only when their struct has a supplier in this declaration
	supplied := map[int]bool{}
	for _, u := range uses {
		for _, o := range g.sp.Providers[u.Prov].Out {
			supplied[o] = true
		}
	}
	for pi := range g.sp.Providers {
		p := &g.sp.Providers[pi]
		if p.Form == "struct" && supplied[p.Struct] && !r.Chance(1, 10) {
			uses = append(uses, Use{Prov: pi})
		}
	}
	return uses
}

// variant marks Async and permutes the declaration order.
func (g *genState) variant(base []Use, k int) []Use {
	r := g.r
	uses := make([]Use, len(base))
	copy(uses, base)
	mode := r.Intn(9)
	if (g.sp.Shape == "layered" || g.sp.Shape == "tree" || g.sp.Shape == "ladder" || g.sp.Shape == "rails") && r.Chance(1, 2) {
		mode = 5 + r.Intn(4) // mostly asynchronous service graphs, often with synchronous roots / sinks
	}
	if g.sp.Shape == "rails" && r.Chance(2, 3) {
		// rails asynchronous, root and sink mostly synchronous: the pools of the rails feed each other
		mode = []int{7, 7, 8, 6}[r.Intn(4)]
	}
	if g.prof.WantAsync && mode == 0 {
		mode = 2
	}
	if g.prof.MinAsyncFree > 0 {
		mode = []int{3, 4, 5, 8, 8}[r.Intn(5)]
	}
	if g.sp.Shape == "widefan" && r.Chance(3, 4) {
		mode = 8 // services and joins asynchronous, the sink synchronous
		if g.wideFanRoot {
			mode = 7 // ... and the root synchronous
		}
	}
	// which providers produce nothing anyone else consumes (sinks)
	consumed := map[int]bool{}
	for i := range g.sp.Providers {
		for _, in := range g.sp.Providers[i].In {
			consumed[in] = true
		}
	}
	for i := range uses {
		// the same provider bound to an interface in one injector and left unbound (or bound
		// differently) in another injector of the same package, file or invocation
		if len(uses[i].Bind) > 0 && k > 0 && r.Chance(1, 4) {
			drop := r.Intn(len(uses[i].Bind))
			nb := make([]int, 0, len(uses[i].Bind))
			for j, b := range uses[i].Bind {
				if j != drop || b == g.curRet {
					nb = append(nb, b)
				}
			}
			uses[i].Bind = nb
		}
		p := &g.sp.Providers[uses[i].Prov]
		if p.Form == "value" {
			continue
		}
		if p.Form == "struct" {
			uses[i].Async = g.risky && r.Chance(1, 6)
			continue
		}
		switch mode {
		case 0:
			uses[i].Async = false
		case 1:
			uses[i].Async = r.Chance(1, 5)
		case 2:
			uses[i].Async = r.Chance(1, 2)
		case 3:
			uses[i].Async = true
		case 4:
			uses[i].Async = len(p.In) == 0 || r.Chance(1, 4)
		case 5:
			uses[i].Async = r.Chance(3, 4)
		case 6: // synchronous roots feeding asynchronous consumers
			uses[i].Async = len(p.In) > 0 && r.Chance(6, 7)
		case 7: // asynchronous middle: neither roots nor sinks
			sink := true
			for _, o := range p.Out {
				if consumed[o] {
					sink = false
				}
			}
			uses[i].Async = len(p.In) > 0 && !sink
		case 8: // asynchronous roots and middle, synchronous sinks
			sink := true
			for _, o := range p.Out {
				if consumed[o] {
					sink = false
				}
			}
			uses[i].Async = !sink || r.Chance(1, 8)
		}
	}
	if r.Chance(2, 3) {
		for i := len(uses) - 1; i > 0; i-- {
			j := r.Intn(i + 1)
			uses[i], uses[j] = uses[j], uses[i]
		}
	}
	return uses
}

// group partitions the uses into Sets (named, nested, inline) at random.
func (g *genState) group(uses []Use, k int) []Item {
	r := g.r
	items := make([]Item, 0, len(uses))
	for i := range uses {
		u := uses[i]
		items = append(items, Item{Use: &u})
	}
	if len(items) < 2 || r.Chance(1, 2) {
		return items
	}
	nsets := 1 + r.Intn(2)
	for s := 0; s < nsets && len(items) >= 2; s++ {
		lo := r.Intn(len(items) - 1)
		hi := lo + 1 + r.Intn(len(items)-lo-1) + 1
		if hi > len(items) {
			hi = len(items)
		}
		set := &SetDef{Items: append([]Item{}, items[lo:hi]...)}
		if !r.Chance(1, 4) {
			set.Name = fmt.Sprintf("Set%d_%d_%d", k, s, r.Intn(1000))
		}
		rest := append([]Item{}, items[:lo]...)
		rest = append(rest, Item{Set: set})
		rest = append(rest, items[hi:]...)
		items = rest
	}
	return items
}
