package progen

import (
	"fmt"
	"sort"
	"strings"
)

const (
	SimrtImport   = "verif/rt/simrt"
	HarnessImport = "verif/rt/harness"
	KessokuImport = "github.com/mazrean/kessoku"
)

// Files renders the user package: types.go, providers.go and k<N>.go declaration files.
func (sp *Spec) Files() map[string]string {
	out := map[string]string{}
	out["types.go"] = sp.renderTypes()
	out["providers.go"] = sp.renderProviders()
	if v := sp.renderGeneratedVars(); v != "" {
		out["zz_generated.go"] = v
	}
	sp.renderExtFiles(out)
	if c := sp.Compose; c != nil {
		out[c.File] = fmt.Sprintf("package %s\n\nimport %q\n\n// An injector generated from another file of this package is used as a provider here.\nvar _ = kessoku.Inject[%s](\n\t%q,\n\tkessoku.Provide(%s),\n\tkessoku.Provide(%s),\n)\n", sp.Pkg, KessokuImport, c.Requested, c.Outer, c.Inner, c.Wrapper)
	}
	for f := 0; f < sp.NFiles; f++ {
		out[fmt.Sprintf("k%d.go", f)] = sp.renderDecl(f)
	}
	if sp.SetsElsewhere {
		if c := sp.renderDecl(-1); strings.Contains(c, "kessoku.Set(") {
			out["sets_shared.go"] = c
		}
	}
	return out
}

// DeclFiles lists the declaration files in invocation order.
func (sp *Spec) DeclFiles() []string {
	var fs []string
	for f := 0; f < sp.NFiles; f++ {
		fs = append(fs, fmt.Sprintf("k%d.go", f))
	}
	return fs
}

func mkName(t *Type) string {
	switch t.Kind {
	case KCtx:
		return "mk_ctx"
	case KExt:
		return "mk_" + strings.ReplaceAll(t.Name, ".", "_")
	case KPlainStr:
		return "mk_pstr"
	case KPlainInt:
		return "mk_pint"
	}
	return "mk_" + t.Name
}

// extImports renders the aliased imports (and a use of each) of the foreign types among ids.
// Every file imports only the foreign packages it mentions itself, so that different files of the
// package import different packages of the same name.
func (sp *Spec) extImports(ids []int) (imports, uses string) {
	seen := map[string]bool{}
	for _, id := range ids {
		if id < 0 || id >= len(sp.Types) {
			continue
		}
		t := &sp.Types[id]
		if t.Kind != KExt {
			continue
		}
		alias := strings.SplitN(t.Name, ".", 2)[0]
		for _, e := range ExtTypes {
			if e.Alias == alias && !seen[alias] {
				seen[alias] = true
				imports += fmt.Sprintf("\t%s %q\n", e.Alias, e.Path)
				uses += fmt.Sprintf("var _ *%s.%s\n", e.Alias, e.Type)
			}
		}
	}
	return
}

func (sp *Spec) usesCtx() bool {
	for i := range sp.Types {
		if sp.Types[i].Kind == KCtx {
			return true
		}
	}
	return false
}

func (sp *Spec) renderTypes() string {
	var b strings.Builder
	fmt.Fprintf(&b, "package %s\n\nimport (\n\t\"context\"\n\n\tsimrt %q\n)\n\nvar _ context.Context\nvar _ = simrt.Intern\n\n", sp.Pkg, SimrtImport)
	for i := range sp.Types {
		t := &sp.Types[i]
		switch t.Kind {
		case KExt:
			// constructed in its own file (ext_<alias>.go), the only one importing that package
		case KCtx:
			if t.Expr() != "context.Context" {
				fmt.Fprintf(&b, "type %s = context.Context\n\n", t.Name)
			}
		case KPtr:
			fmt.Fprintf(&b, "type %s struct{ Term string }\n\n", t.Name)
			fmt.Fprintf(&b, "func (t *%s) TermOf() string {\n\tif t == nil {\n\t\treturn \"<nil>\"\n\t}\n\treturn t.Term\n}\n", t.Name)
			for _, it := range t.Impl {
				fmt.Fprintf(&b, "func (t *%s) is%s() {}\n", t.Name, sp.Types[it].Name)
			}
			fmt.Fprintf(&b, "func %s(t string) *%s { return &%s{Term: t} }\n\n", mkName(t), t.Name, t.Name)
		case KVal:
			fmt.Fprintf(&b, "type %s struct{ Term string }\n\nfunc %s(t string) %s { return %s{Term: t} }\n\n", t.Name, mkName(t), t.Name, t.Name)
		case KStr:
			fmt.Fprintf(&b, "type %s string\n\nfunc %s(t string) %s { return %s(t) }\n\n", t.Name, mkName(t), t.Name, t.Name)
		case KInt:
			fmt.Fprintf(&b, "type %s int\n\nfunc %s(t string) %s { return %s(simrt.Intern(t)) }\n\n", t.Name, mkName(t), t.Name, t.Name)
		case KIface:
			fmt.Fprintf(&b, "type %s interface {\n\tTermOf() string\n\tis%s()\n}\n\n", t.Name, t.Name)
			impl := &sp.Types[t.ImplBy]
			fmt.Fprintf(&b, "func %s(t string) %s { return %s(t) }\n\n", mkName(t), t.Name, mkName(impl))
		case KPlainStr:
			fmt.Fprintf(&b, "func mk_pstr(t string) string { return t }\n\n")
		case KPlainInt:
			fmt.Fprintf(&b, "func mk_pint(t string) int { return simrt.Intern(t) }\n\n")
		case KStructPtr, KStructVal:
			fmt.Fprintf(&b, "type %s struct {\n", t.Name)
			for _, f := range t.Fields {
				if f.Type < 0 {
					fmt.Fprintf(&b, "\t%s int\n", f.Name)
				} else {
					fmt.Fprintf(&b, "\t%s %s\n", f.Name, sp.Types[f.Type].Expr())
				}
			}
			fmt.Fprintf(&b, "\tterm string\n}\n\n")
			amp := ""
			if t.Kind == KStructPtr {
				amp = "&"
			}
			fmt.Fprintf(&b, "func %s(t string) %s {\n\treturn %s%s{\n\t\tterm: t,\n", mkName(t), t.Expr(), amp, t.Name)
			for _, f := range t.Fields {
				if f.Type < 0 {
					fmt.Fprintf(&b, "\t\t%s: 7,\n", f.Name)
				} else {
					fmt.Fprintf(&b, "\t\t%s: %s(\"fld(%s.%s,\" + t + \")\"),\n", f.Name, mkName(&sp.Types[f.Type]), t.Name, f.Name)
				}
			}
			fmt.Fprintf(&b, "\t}\n}\n\n")
		}
	}
	b.WriteString("// termCtx is a context.Context that carries a term (a provider may supply the context itself).\ntype termCtx struct {\n\tcontext.Context\n\tterm string\n}\n\nfunc (c termCtx) VerifTerm() string { return c.term }\n\nfunc mk_ctx(t string) context.Context { return termCtx{Context: context.Background(), term: t} }\n\n")
	b.WriteString("// Failure is an alias of error: providers may spell their error result either way.\ntype Failure = error\n\n")
	// termOf: the term a value carries
	b.WriteString("func termOf(v any) string {\n\tswitch x := v.(type) {\n\tcase nil:\n\t\treturn \"<nil>\"\n")
	for i := range sp.Types {
		t := &sp.Types[i]
		switch t.Kind {
		case KPtr:
			fmt.Fprintf(&b, "\tcase *%s:\n\t\treturn x.TermOf()\n", t.Name)
		case KStructPtr:
			fmt.Fprintf(&b, "\tcase *%s:\n\t\tif x == nil {\n\t\t\treturn \"<nil>\"\n\t\t}\n\t\treturn orZero(x.term)\n", t.Name)
		case KVal:
			fmt.Fprintf(&b, "\tcase %s:\n\t\treturn orZero(x.Term)\n", t.Name)
		case KStructVal:
			fmt.Fprintf(&b, "\tcase %s:\n\t\treturn orZero(x.term)\n", t.Name)
		case KStr:
			fmt.Fprintf(&b, "\tcase %s:\n\t\treturn orZero(string(x))\n", t.Name)
		case KInt:
			fmt.Fprintf(&b, "\tcase %s:\n\t\treturn simrt.TermOfInt(int(x))\n", t.Name)
		}
	}
	b.WriteString("\tcase string:\n\t\treturn orZero(x)\n\tcase int:\n\t\treturn simrt.TermOfInt(x)\n\tcase context.Context:\n\t\tif tc, ok := x.(interface{ VerifTerm() string }); ok {\n\t\t\treturn tc.VerifTerm()\n\t\t}\n\t\treturn \"CTX\"\n\t}\n\treturn \"<unknown>\"\n}\n\n")
	b.WriteString("func orZero(s string) string {\n\tif s == \"\" {\n\t\treturn \"<zero>\"\n\t}\n\treturn s\n}\n")
	return b.String()
}

func (sp *Spec) renderProviders() string {
	var b strings.Builder
	fmt.Fprintf(&b, "package %s\n\nimport (\n\t\"context\"\n\n\tsimrt %q\n)\n\nvar _ context.Context\nvar _ = simrt.Intern\n\n", sp.Pkg, SimrtImport)
	for i := range sp.Providers {
		p := &sp.Providers[i]
		if p.Form == "struct" || p.Form == "value" || sp.mentionsExt(p) {
			continue
		}
		sp.renderProvider(&b, p)
	}
	return b.String()
}

func (sp *Spec) mentionsExt(p *Provider) bool {
	for _, t := range append(append([]int{}, p.In...), p.Out...) {
		if t >= 0 && sp.Types[t].Kind == KExt {
			return true
		}
	}
	return false
}

// renderExtFiles: one file per foreign package (its constructor) and one per provider that mentions foreign types.
func (sp *Spec) renderExtFiles(out map[string]string) {
	for i := range sp.Types {
		t := &sp.Types[i]
		if t.Kind != KExt {
			continue
		}
		imp, _ := sp.extImports([]int{i})
		alias := strings.SplitN(t.Name, ".", 2)[0]
		out["ext_"+alias+".go"] = fmt.Sprintf("package %s\n\nimport (\n%s)\n\nfunc %s(t string) *%s { return new(%s) }\n", sp.Pkg, imp, mkName(t), t.Name, t.Name)
	}
	for i := range sp.Providers {
		p := &sp.Providers[i]
		if p.Form == "struct" || p.Form == "value" || !sp.mentionsExt(p) {
			continue
		}
		var b strings.Builder
		imp, _ := sp.extImports(append(append([]int{}, p.In...), p.Out...))
		fmt.Fprintf(&b, "package %s\n\nimport (\n\t\"context\"\n%s\n\tsimrt %q\n)\n\nvar _ context.Context\nvar _ = simrt.Intern\n\n", sp.Pkg, imp, SimrtImport)
		sp.renderProvider(&b, p)
		out["pext_"+p.Name+".go"] = b.String()
	}
}

func (sp *Spec) renderProvider(b *strings.Builder, p *Provider) {
	{
		var params, terms []string
		ctxArg := "nil"
		for j, in := range p.In {
			t := &sp.Types[in]
			params = append(params, fmt.Sprintf("a%d %s", j, t.Expr()))
			terms = append(terms, fmt.Sprintf("termOf(a%d)", j))
			if t.Kind == KCtx && p.CtxAware {
				ctxArg = fmt.Sprintf("a%d", j)
			}
		}
		var rets, zero, vals []string
		for j, o := range p.Out {
			t := &sp.Types[o]
			rets = append(rets, t.Expr())
			zero = append(zero, fmt.Sprintf("*new(%s)", t.Expr()))
			vals = append(vals, fmt.Sprintf("%s(o[%d])", mkName(t), j))
		}
		if p.Fallible {
			if p.ErrAlias {
				rets = append(rets, "Failure")
			} else {
				rets = append(rets, "error")
			}
			zero = append(zero, "err")
			vals = append(vals, "nil")
		}
		fmt.Fprintf(b, "func %s(%s) (%s) {\n", p.Name, strings.Join(params, ", "), strings.Join(rets, ", "))
		args := ""
		if len(terms) > 0 {
			args = ", " + strings.Join(terms, ", ")
		}
		fmt.Fprintf(b, "\to, err := simrt.Call(%q, %d, %v, %s%s)\n", p.Name, len(p.Out), p.Fallible, ctxArg, args)
		if p.Fallible {
			fmt.Fprintf(b, "\tif err != nil {\n\t\treturn %s\n\t}\n", strings.Join(zero, ", "))
		} else {
			fmt.Fprintf(b, "\t_ = err\n")
		}
		fmt.Fprintf(b, "\treturn %s\n}\n\n", strings.Join(vals, ", "))
	}
}

// renderGeneratedVars: package-level variables in a file that carries another tool's "Code generated" header.
func (sp *Spec) renderGeneratedVars() string {
	var b strings.Builder
	for i := range sp.Providers {
		p := &sp.Providers[i]
		if p.Form == "value" && p.VarRef != "" {
			t := &sp.Types[p.Out[0]]
			fmt.Fprintf(&b, "var %s = %s(\"VAL(%s)\")\n\n", p.VarRef, mkName(t), p.Name)
		}
	}
	if b.Len() == 0 {
		return ""
	}
	return "// Code generated by buildinfo-gen. DO NOT EDIT.\n\npackage " + sp.Pkg + "\n\n" + b.String()
}

func (sp *Spec) useExpr(u *Use) string {
	p := &sp.Providers[u.Prov]
	var e string
	switch p.Form {
	case "func":
		e = "kessoku.Provide(" + p.Name + ")"
	case "lit":
		var params, args, rets []string
		for j, in := range p.In {
			params = append(params, fmt.Sprintf("a%d %s", j, sp.Types[in].Expr()))
			args = append(args, fmt.Sprintf("a%d", j))
		}
		for _, o := range p.Out {
			rets = append(rets, sp.Types[o].Expr())
		}
		if p.Fallible {
			if p.ErrAlias {
				rets = append(rets, "Failure")
			} else {
				rets = append(rets, "error")
			}
		}
		e = fmt.Sprintf("kessoku.Provide(func(%s) (%s) { return %s(%s) })", strings.Join(params, ", "), strings.Join(rets, ", "), p.Name, strings.Join(args, ", "))
	case "value":
		t := &sp.Types[p.Out[0]]
		if p.VarRef != "" {
			e = "kessoku.Value(" + p.VarRef + ")"
			break
		}
		e = fmt.Sprintf("kessoku.Value(%s(\"VAL(%s)\"))", mkName(t), p.Name)
	case "struct":
		e = fmt.Sprintf("kessoku.Struct[%s]()", sp.Types[p.Struct].Expr())
	}
	wrapBind := func(s string) string {
		for _, it := range u.Bind {
			s = fmt.Sprintf("kessoku.Bind[%s](%s)", sp.Types[it].Name, s)
		}
		return s
	}
	if u.Async {
		if u.BindOuter {
			return wrapBind("kessoku.Async(" + e + ")")
		}
		return "kessoku.Async(" + wrapBind(e) + ")"
	}
	return wrapBind(e)
}

func (sp *Spec) renderItems(items []Item, indent string, sets *[]string) string {
	var parts []string
	for i := range items {
		it := &items[i]
		switch {
		case it.Use != nil:
			parts = append(parts, indent+sp.useExpr(it.Use)+",")
		case it.Set != nil && it.Set.Name == "":
			parts = append(parts, indent+"kessoku.Set(\n"+sp.renderItems(it.Set.Items, indent+"\t", sets)+"\n"+indent+"),")
		case it.Set != nil:
			*sets = append(*sets, it.Set.Name+"\x00"+fmt.Sprintf("kessoku.Set(\n%s\n)", sp.renderItems(it.Set.Items, "\t", sets)))
			parts = append(parts, indent+it.Set.Name+",")
		}
	}
	return strings.Join(parts, "\n")
}

// renderDecl renders declaration file k<file>.go; file -1 is the shared file that holds the Set
// variables of every injector when the package keeps them apart from the Inject calls.
func (sp *Spec) renderDecl(file int) string {
	var b strings.Builder
	var mentioned []int
	for i := range sp.Injectors {
		inj := &sp.Injectors[i]
		if inj.File != file && file >= 0 {
			continue
		}
		mentioned = append(mentioned, inj.Ret)
		for _, u := range inj.Flatten() {
			if p := &sp.Providers[u.Prov]; p.Form == "lit" {
				mentioned = append(append(mentioned, p.In...), p.Out...)
			}
		}
	}
	extImp, extUse := sp.extImports(mentioned)
	fmt.Fprintf(&b, "package %s\n\nimport (\n\t\"context\"\n%s\n\t%q\n)\n\nvar _ context.Context\n%s\n", sp.Pkg, extImp, KessokuImport, extUse)
	for i := range sp.Injectors {
		inj := &sp.Injectors[i]
		if inj.File != file && file >= 0 {
			continue
		}
		var sets []string
		body := sp.renderItems(inj.Items, "\t", &sets)
		if sp.SetsElsewhere && file >= 0 {
			sets = nil // declared in sets_shared.go
		}
		// nested named sets are collected innermost-last; order of var declarations is irrelevant in Go
		sort.Strings(sets)
		if sp.MultiVarSets && len(sets) >= 2 {
			// var a, b = kessoku.Set(...), kessoku.Set(...): several sets in ONE var spec
			var names, bodies []string
			for _, s := range sets {
				nb := strings.SplitN(s, "\x00", 2)
				names = append(names, nb[0])
				bodies = append(bodies, nb[1])
			}
			fmt.Fprintf(&b, "var %s = %s\n\n", strings.Join(names, ", "), strings.Join(bodies, ", "))
		} else {
			for _, s := range sets {
				nb := strings.SplitN(s, "\x00", 2)
				fmt.Fprintf(&b, "var %s = %s\n\n", nb[0], nb[1])
			}
		}
		if file < 0 {
			continue
		}
		fmt.Fprintf(&b, "var _ = kessoku.Inject[%s](\n\t%q,\n%s\n)\n\n", sp.Types[inj.Ret].Expr(), inj.Name, body)
	}
	return b.String()
}

// RegFile renders reg.go for the simulated copy: it registers the injectors that exist
// (those whose generated file compiled) and the argument constructors of every type.
func (sp *Spec) RegFile(injectors []string) string {
	var b strings.Builder
	fmt.Fprintf(&b, "package %s\n\nimport (\n\t\"context\"\n\t\"reflect\"\n\n\tharness %q\n)\n\nvar _ context.Context\n\nfunc Register(r *harness.Registry) {\n", sp.Pkg, HarnessImport)
	fmt.Fprintf(&b, "\tp := r.Package(%q, termOf)\n", sp.Pkg)
	for i := range sp.Types {
		t := &sp.Types[i]
		switch t.Kind {
		case KCtx:
			continue
		case KIface:
			fmt.Fprintf(&b, "\tp.Arg(reflect.TypeOf((*%s)(nil)).Elem(), %q, func(t string) reflect.Value { return reflect.ValueOf(%s(t)) })\n", t.Name, t.Expr(), mkName(t))
		default:
			fmt.Fprintf(&b, "\tp.Arg(reflect.TypeOf(*new(%s)), %q, func(t string) reflect.Value { return reflect.ValueOf(%s(t)) })\n", t.Expr(), t.Expr(), mkName(t))
		}
	}
	for _, n := range injectors {
		fmt.Fprintf(&b, "\tp.Injector(%q, %s)\n", n, n)
	}
	b.WriteString("}\n")
	return b.String()
}
