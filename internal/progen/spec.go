// Package progen draws random kessoku declarations (the workload of engine A and B),
// renders them as Go packages and contains the sequential reference interpreter that
// says what an injector must compute. It shares no code with the generator under test.
package progen

import (
	"fmt"
	"sort"
	"strings"
)

type Kind string

const (
	KPtr       Kind = "ptr"   // *Tn, struct with a Term
	KVal       Kind = "val"   // Tn by value
	KStr       Kind = "str"   // named string
	KInt       Kind = "int"   // named int
	KIface     Kind = "iface" // interface implemented by exactly one KPtr type
	KPlainStr  Kind = "pstr"  // string
	KPlainInt  Kind = "pint"  // int
	KCtx       Kind = "ctx"   // context.Context
	KStructPtr Kind = "sptr"  // *Sn with exported fields (Struct expansion)
	KStructVal Kind = "sval"  // Sn by value
	KExt       Kind = "ext"   // pointer to a type of another package whose package name collides with a sibling's (engine B only)
)

// ExtTypes are the foreign types engine B mixes in: same package name, same type name, different packages.
var ExtTypes = []struct{ Alias, Path, Type string }{
	{"ttemplate", "text/template", "Template"},
	{"htemplate", "html/template", "Template"},
	{"mrand", "math/rand", "Rand"},
	{"mrand2", "math/rand/v2", "Rand"},
}

type Field struct {
	Name     string `json:"name"`
	Type     int    `json:"type"`
	Exported bool   `json:"exported"`
}

type Type struct {
	ID     int     `json:"id"`
	Kind   Kind    `json:"kind"`
	Name   string  `json:"name"`    // identifier without pointer star
	ImplBy int     `json:"impl_by"` // KIface: the KPtr type implementing it
	Impl   []int   `json:"impl"`    // KPtr: interfaces it implements
	Fields []Field `json:"fields"`
}

// Expr is the Go spelling of the type.
func (t *Type) Expr() string {
	switch t.Kind {
	case KPtr, KStructPtr, KExt:
		return "*" + t.Name
	case KCtx:
		if t.Name != "" && t.Name != "Context" {
			return t.Name // an alias of context.Context declared by the package
		}
		return "context.Context"
	}
	return t.Name
}

func (t *Type) Nillable() bool {
	return t.Kind == KPtr || t.Kind == KStructPtr || t.Kind == KIface || t.Kind == KCtx || t.Kind == KExt
}

type Provider struct {
	Name     string `json:"name"`
	In       []int  `json:"in"`
	Out      []int  `json:"out"`
	Fallible bool   `json:"fallible"`
	CtxAware bool   `json:"ctx_aware"`
	Form     string `json:"form"` // func | lit | value | struct
	Struct   int    `json:"struct"`
	VarRef   string `json:"var_ref,omitempty"`   // value: kessoku.Value(<package-level variable>) declared in a tool-generated file
	ErrAlias bool   `json:"err_alias,omitempty"` // the error result is spelled through `type Failure = error`
}

// Use is one provider expression inside an Inject call.
type Use struct {
	Prov      int   `json:"prov"`
	Async     bool  `json:"async"`
	Bind      []int `json:"bind"`       // interface types bound to this provider
	BindOuter bool  `json:"bind_outer"` // Bind(Async(..)) instead of Async(Bind(..))
}

type Item struct {
	Use *Use    `json:"use,omitempty"`
	Set *SetDef `json:"set,omitempty"`
}

type SetDef struct {
	Name  string `json:"name"` // "" = inline kessoku.Set(...)
	Items []Item `json:"items"`
}

type Injector struct {
	Name   string `json:"name"`
	File   int    `json:"file"`
	Ret    int    `json:"ret"`
	Items  []Item `json:"items"`
	Family int    `json:"family"`
}

type Spec struct {
	Pkg       string     `json:"pkg"`
	Types     []Type     `json:"types"`
	Providers []Provider `json:"providers"`
	Injectors []Injector `json:"injectors"`
	NFiles    int        `json:"nfiles"`
	OneInvoke bool       `json:"one_invoke"` // all k*.go files passed to one generator invocation
	Shape     string     `json:"shape"`
	Wide      bool       `json:"wide,omitempty"`  // one provider has more than 64 parameters
	Large     bool       `json:"large,omitempty"` // 20-40 function providers
	// MultiVarSets renders the named Sets of an injector in one multi-name var spec.
	MultiVarSets bool `json:"multi_var_sets,omitempty"`
	// SetsElsewhere declares every named Set in sets_shared.go instead of next to its Inject call.
	SetsElsewhere bool `json:"sets_elsewhere,omitempty"`
	// Compose, if set, adds one more declaration file whose injector uses an injector GENERATED from an
	// earlier file as a provider (engine B only: the package compiles only after that file was generated).
	Compose *ComposeDef `json:"compose,omitempty"`
}

type ComposeDef struct {
	File      string `json:"file"`      // e.g. k9.go
	Outer     string `json:"outer"`     // name of the composing injector
	Inner     string `json:"inner"`     // injector of an earlier file used as a provider
	Wrapper   string `json:"wrapper"`   // provider taking the inner injector's result
	Requested string `json:"requested"` // Go expression of the requested type
}

// Flatten lists the uses of an injector in declaration order (Sets expanded in place).
func (inj *Injector) Flatten() []*Use {
	var out []*Use
	var rec func(items []Item)
	rec = func(items []Item) {
		for i := range items {
			if items[i].Use != nil {
				out = append(out, items[i].Use)
			}
			if items[i].Set != nil {
				rec(items[i].Set.Items)
			}
		}
	}
	rec(inj.Items)
	return out
}

// ---------------------------------------------------------------- reference interpreter

// Supplier says where a type comes from in one injector.
type Supplier struct {
	Kind   string // provider | field | value
	Use    *Use
	Prov   int
	OutIdx int
	Struct int    // field: struct type
	Field  string // field: name
}

// Ref is what the sequential evaluation of an injector's declaration yields.
type Ref struct {
	Result     string              // term of the returned value
	Calls      map[string]*RefCall // needed function providers (by name), each invoked exactly once
	Order      []string            // one valid sequential order of the needed providers
	ArgTypes   []int               // unsupplied types, in discovery order
	NeedsCtx   bool                // some needed provider is Async
	HasErr     bool                // some needed provider is fallible
	Ancestors  map[string]map[string]bool
	AsyncFree  []string // needed, Async, function-backed providers without any input (C05's set Z)
	AsyncAll   []string // every needed Async function provider
	NeededUses int
	FieldReads int
	Invalid    string // non-empty: the declaration is ambiguous/unsatisfiable by the documented rules
	// ChanProducer is filled by the harness from one fault-free run of the generated injector: which
	// provider's completion each done-channel announces (used only to describe leaks more precisely).
	ChanProducer map[string]string `json:"-"`
}

type RefCall struct {
	Name     string
	In       []string
	Out      []string
	Producer []string // per input: name of the needed provider whose result (possibly through a field read) feeds it, "" for args/values/ctx
	Async    bool
	Fallible bool
}

// ArgTerm is the term the harness gives the argument of a type.
func ArgTerm(t *Type, nonce string) string {
	if t.Kind == KCtx {
		return "CTX"
	}
	return "ARG<" + t.Expr() + ">#" + nonce
}

// Evaluate interprets the declaration one provider at a time in dependency order.
func Evaluate(sp *Spec, inj *Injector, nonce string) *Ref {
	ref := &Ref{Calls: map[string]*RefCall{}, Ancestors: map[string]map[string]bool{}}
	sup := map[int]*Supplier{}
	dup := func(t int) { ref.Invalid = "two suppliers for " + sp.Types[t].Expr() }
	uses := inj.Flatten()
	// first function/value providers, then struct expansions (which need their struct's supplier)
	for _, u := range uses {
		p := &sp.Providers[u.Prov]
		if p.Form == "struct" {
			continue
		}
		for i, t := range p.Out {
			if sup[t] != nil {
				dup(t)
				return ref
			}
			k := "provider"
			if p.Form == "value" {
				k = "value"
			}
			sup[t] = &Supplier{Kind: k, Use: u, Prov: u.Prov, OutIdx: i}
		}
		for _, it := range u.Bind {
			// the interface is supplied by the FIRST result of this provider that implements it; a result
			// whose type is the interface itself comes first of all (it was registered above)
			if s := sup[it]; s != nil && s.Use == u {
				continue
			}
			idx := -1
			for i, t := range p.Out {
				if idx >= 0 {
					break
				}
				for _, im := range sp.Types[t].Impl {
					if im == it {
						idx = i
					}
				}
			}
			if idx < 0 {
				ref.Invalid = "Bind of " + sp.Types[it].Name + " to a provider that does not return its implementation"
				return ref
			}
			if sup[it] != nil {
				dup(it)
				return ref
			}
			k := "provider"
			if p.Form == "value" {
				k = "value"
			}
			sup[it] = &Supplier{Kind: k, Use: u, Prov: u.Prov, OutIdx: idx}
		}
	}
	for _, u := range uses {
		p := &sp.Providers[u.Prov]
		if p.Form != "struct" {
			continue
		}
		st := &sp.Types[p.Struct]
		if sup[p.Struct] == nil {
			ref.Invalid = "Struct expansion of " + st.Expr() + " without a source"
			return ref
		}
		for _, f := range st.Fields {
			if !f.Exported {
				continue
			}
			if sup[f.Type] != nil {
				dup(f.Type)
				return ref
			}
			sup[f.Type] = &Supplier{Kind: "field", Use: u, Prov: u.Prov, Struct: p.Struct, Field: f.Name}
		}
	}

	memo := map[int]string{}   // type -> term
	prod := map[int]string{}   // type -> producing provider name ("" none)
	visiting := map[int]bool{} // cycle guard
	argSeen := map[int]bool{}
	var eval func(t int) string
	callProvider := func(u *Use) *RefCall {
		p := &sp.Providers[u.Prov]
		if c := ref.Calls[p.Name]; c != nil {
			return c
		}
		c := &RefCall{Name: p.Name, Async: u.Async, Fallible: p.Fallible}
		anc := map[string]bool{}
		for _, in := range p.In {
			c.In = append(c.In, eval(in))
			if ref.Invalid != "" {
				return c
			}
			pr := prod[in]
			c.Producer = append(c.Producer, pr)
			if pr != "" {
				anc[pr] = true
				for a := range ref.Ancestors[pr] {
					anc[a] = true
				}
			}
		}
		for i := range p.Out {
			c.Out = append(c.Out, fmt.Sprintf("%s.%d(%s)", p.Name, i, strings.Join(c.In, ",")))
		}
		ref.Calls[p.Name] = c
		ref.Ancestors[p.Name] = anc
		ref.Order = append(ref.Order, p.Name)
		ref.NeededUses++
		if u.Async {
			ref.NeedsCtx = true
			ref.AsyncAll = append(ref.AsyncAll, p.Name)
			if len(p.In) == 0 {
				ref.AsyncFree = append(ref.AsyncFree, p.Name)
			}
		}
		if p.Fallible {
			ref.HasErr = true
		}
		return c
	}
	eval = func(t int) string {
		if v, ok := memo[t]; ok {
			return v
		}
		if visiting[t] {
			ref.Invalid = "dependency cycle through " + sp.Types[t].Expr()
			return ""
		}
		visiting[t] = true
		defer func() { visiting[t] = false }()
		s := sup[t]
		var term string
		switch {
		case s == nil:
			if !argSeen[t] {
				argSeen[t] = true
				ref.ArgTypes = append(ref.ArgTypes, t)
			}
			term = ArgTerm(&sp.Types[t], nonce)
			prod[t] = ""
		case s.Kind == "value":
			p := &sp.Providers[s.Prov]
			term = "VAL(" + p.Name + ")"
			prod[t] = ""
		case s.Kind == "provider":
			c := callProvider(s.Use)
			if ref.Invalid != "" {
				return ""
			}
			term = c.Out[s.OutIdx]
			prod[t] = c.Name
		case s.Kind == "field":
			st := eval(s.Struct)
			if ref.Invalid != "" {
				return ""
			}
			term = "fld(" + sp.Types[s.Struct].Name + "." + s.Field + "," + st + ")"
			prod[t] = prod[s.Struct]
			ref.FieldReads++
		}
		memo[t] = term
		return term
	}
	ref.Result = eval(inj.Ret)
	sort.Strings(ref.AsyncFree)
	sort.Strings(ref.AsyncAll)
	return ref
}
