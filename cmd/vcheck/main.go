// Command vcheck is the driver behind ./vc: it rebuilds what a check needs from the
// repository's current working tree in a scratch directory, runs the simulation
// engine for the requested property and settles the output contract.
package main

import (
	"encoding/json"
	"fmt"
	"os"

	"verif/internal/drv"
	"verif/internal/enga"
	"verif/internal/engb"
	"verif/internal/engc"
)

func usage() {
	fmt.Fprintln(os.Stderr, "usage: vcheck <Cxx> quick|thorough | vcheck replay <file> | vcheck selftest")
	os.Exit(drv.ExitBroken)
}

func main() {
	if len(os.Args) < 2 {
		usage()
	}
	switch os.Args[1] {
	case "replay":
		if len(os.Args) < 3 {
			usage()
		}
		drv.Exit(replay(os.Args[2]))
	case "C01", "C02", "C03", "C05", "C06", "C07", "C08":
		drv.Exit(enga.Run(os.Args[1], tier()))
	case "warm":
		drv.WarmGoCache()
		drv.Exit(drv.ExitOK)
	case "selftest":
		n := 4
		if len(os.Args) > 2 {
			fmt.Sscan(os.Args[2], &n)
		}
		fmt.Print("selftest: ", enga.Conformance(400))
		a, ia := enga.SelfTest(n)
		c, ic := engc.SelfTest(n)
		fmt.Printf("selftest: determinism held: engine A %d executions %v; engine C %d executions %v\n", a, ia, c, ic)
		drv.Exit(drv.ExitOK)
	case "C11":
		drv.Exit(engb.Run(tier()))
	case "C15":
		drv.Exit(engc.RunC15(tier()))
	case "C16":
		drv.Exit(engc.RunC16(tier()))
	default:
		usage()
	}
}

func tier() string {
	t := ""
	if len(os.Args) > 2 {
		t = os.Args[2]
	}
	return drv.Tier(t)
}

func replay(file string) int {
	raw, err := os.ReadFile(file)
	if err != nil {
		drv.Broken("replay file: %v", err)
	}
	var head struct {
		Engine string `json:"engine"`
	}
	if err := json.Unmarshal(raw, &head); err != nil {
		drv.Broken("replay file %s is not JSON: %v", file, err)
	}
	switch head.Engine {
	case "disksim", "realcli", "strace":
		return engc.Replay(file)
	case "bandsim":
		return enga.Replay(file)
	case "gensim":
		return engb.Replay(file)
	}
	drv.Broken("replay file %s names unknown engine %q", file, head.Engine)
	return drv.ExitBroken
}
