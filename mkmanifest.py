#!/usr/bin/env python3
# Regenerates MANIFEST.json from the table below (kept as a script so the file stays valid and consistent).
import json, sys
BASE_OFF = "cd /repo && PATH=/root/go/pkg/mod/golang.org/toolchain@v0.0.1-go1.25.5.linux-amd64/bin:$PATH GOFLAGS=-mod=mod GOPROXY=off GOTOOLCHAIN=local go test -json -vet=off -count=1 -timeout 25m ./..."
claimed = json.load(open('/verif/claims.json'))
na = json.load(open('/verif/not_applicable.json'))
checks = []
for c in claimed:
    checks.append({
        "property_id": c["id"],
        "quick_cmd": f"./vc {c['id']} quick",
        "thorough_cmd": f"./vc {c['id']} thorough",
        "evidence_file": f"/verif/evidence/{c['id']}.json",
        "replay_cmd_template": "./vc replay {path}",
        "engine": c["engine"],
        "level_claimed": {"category": c["level"], "text": c["text"], "design_ref": c["design_ref"]},
        "level_note": c["note"],
        "technique": c["technique"],
    })
m = {
    "version": 1,
    "setup_cmd": "./vc setup",
    "hooks": {
        "guard": "verif",
        "enable": "no hooks in /repo: every seam is a mechanical rewrite of a scratch copy of the working tree made at check time (imports of os / path/filepath / errgroup redirected, yield hooks inserted into the generated *_band.go copy, map ranges rewritten); harness files carry the build tag verifscratch and live only in /verif",
        "baseline_off_cmd": BASE_OFF,
        "source_commits": [],
        "add_only": True,
    },
    "engines": json.load(open('/verif/engines.json')),
    "checks": checks,
    "not_applicable": na,
    "notes": "Technique family: deterministic simulation with fault injection. See DESIGN.md. Exit 2 = the check could not do its job (never a violation).",
}
json.dump(m, open('/verif/MANIFEST.json', 'w'), indent=1)
print("MANIFEST.json:", len(checks), "checks,", len(na), "not applicable")
