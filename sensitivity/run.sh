#!/usr/bin/env bash
# usage: sensitivity/run.sh <patch.diff> <Cxx> [tier]   -- applies the patch to a scratch copy of /repo and runs the check against it
set -u
HERE="$(cd "$(dirname "$0")/.." && pwd)"
M=$(mktemp -d /tmp/verif-mut-XXXXXX)
trap 'rm -rf "$M"' EXIT
rsync -a --exclude .git /repo/ "$M/"
P="$(realpath "$1")"; (cd "$M" && patch -p1 -s < "$P") || { echo "patch does not apply"; exit 2; }
shift
prop=$1; tier=${2:-quick}
cd "$HERE" && VERIF_REPO="$M" ./vc "$prop" "$tier" 2>&1 | grep -v '^KNOWN-FINDING' | cut -c1-400
echo "exit=${PIPESTATUS[0]}"
